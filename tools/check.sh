#!/usr/bin/env bash
# tools/check.sh <PROP> [quick|thorough]   |   tools/check.sh <PROP> --replay <file>
cd "$(dirname "$0")/.." || exit 2
exec python3 tools/check.py "$@"
