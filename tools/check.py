#!/usr/bin/env python3
"""Driver for one property check: builds the variants from the repository's current working tree,
runs the seeded simulation batches, the determinism gate and the side checks, writes the evidence file.

  tools/check.py <PROP> [quick|thorough]
  tools/check.py <PROP> --replay <file>

Exit 0: property held on everything explored. Exit 1: 'VIOLATION property=<id> replay=<path>' printed.
Exit 2: harness fault (build failure, nondeterminism, probe at zero) -- not a verdict about the repository.
"""
import json, os, subprocess, sys, time, shutil, hashlib

VERIF = os.path.dirname(os.path.dirname(os.path.abspath(__file__)))
REPO = os.environ.get("VERIF_REPO", "/repo")
SEED = int(os.environ.get("VERIF_SEED", "1") or "1")
JOBS = int(os.environ.get("VERIF_JOBS", "0") or "0") or min(16, os.cpu_count() or 1)
SCALE = float(os.environ.get("VERIF_SCALE", "1") or "1")
EVDIR = os.environ.get("VERIF_EVIDENCE_DIR", "evidence")
RPDIR = os.environ.get("VERIF_REPLAY_DIR", "replays")
NO_STATIC = os.environ.get("VERIF_NO_STATIC", "") == "1"   # sensitivity harness only: disable the C19 symbol side check   # multiplies run counts (used by the sensitivity harness)

ENGINE = {"C11": "stream", "C12": "stream", "C13": "stream", "C20": "stream", "C15": "prng", "C16": "prng", "C17": "prng", "C18": "trng", "C19": "mix"}
LEVEL = {p: "exploration" for p in ENGINE}
LEVEL["C18"] = "fault_enumeration"

# (variant, quick runs, thorough runs, extra args)
PLAN = {
    "C11": [("prod", 1500000, 20000000, []), ("san", 60000, 600000, []), ("ndebug", 100000, 1000000, [])],
    "C12": [("prod", 400000, 6000000, []), ("san", 20000, 200000, []), ("ndebug", 40000, 400000, [])],
    "C13": [("prod", 60000, 1500000, []), ("san", 600, 8000, []), ("ndebug", 6000, 100000, [])],
    "C15": [("prod", 80000, 4000000, []), ("san", 4000, 80000, []), ("ndebug", 6000, 100000, ["--no-baseline"])],
    "C16": [("prod", 100000, 5000000, []), ("san", 3000, 60000, ["--no-baseline"]), ("ndebug", 6000, 100000, ["--no-baseline"])],
    "C17": [("prod", 26000, 2000000, []), ("san", 2500, 50000, []), ("ndebug", 4000, 60000, []),
            ("trng-getentropy", 3000, 60000, []), ("trng-devurandom", 3000, 60000, [])],   # the system source of the NULL callback in its other build flavours
    "C18": [("trng-getrandom", 40000, 1000000, []), ("trng-getentropy", 40000, 1000000, []), ("trng-syscall", 40000, 1000000, []),
            ("trng-devurandom", 40000, 1000000, []), ("prod", 15000, 300000, []), ("san", 2500, 50000, []), ("ndebug", 6000, 100000, [])],
    "C19": [("prod", 100000, 2500000, []), ("hook", 30000, 700000, []), ("san", 4000, 60000, []), ("ndebug", 8000, 100000, []), ("trng-devurandom", 8000, 100000, []), ("hookvol", 6000, 100000, [])],
    "C20": [("prod", 300000, 5000000, []), ("san", 12000, 150000, []), ("ndebug", 30000, 300000, []), ("hookvol", 20000, 400000, [])],
}
CFG_VARIANTS = ["cfg-%s-%s-%s" % (c, o, z) for c in ("gcc", "clang") for o in ("O0", "O1", "O2", "O3", "Os") for z in ("bz", "vol")]
CFG_QUICK = ["cfg-gcc-O2-vol", "cfg-clang-O3-vol", "cfg-gcc-O0-bz"]

# probes that must have fired for the evidence to mean anything (checked in the thorough tier)
REQUIRED_PROBES = {
    "C11": ["probe_hash_topup_and_continue", "probe_hash_topup_exact", "probe_hash_topup_short", "probe_hash_empty_update", "probe_hash_null_update",
            "probe_hash_reinit_mid_message", "probe_hash_init_after_free", "probe_hash_init_after_finalize", "fault_dirty_object_memory", "preempted_inside_library_call", "fault_object_moved_by_caller"],
    "C12": ["probe_hmac_key_empty", "probe_hmac_key_lt64", "probe_hmac_key_eq64", "probe_hmac_key_gt64", "probe_hmac_oneshot_checked",
            "probe_hmac_reinit_after_finalize", "probe_hmac_reinit_mid_message", "preempted_inside_library_call"],
    "C13": ["probe_hkdf_expand_crossed_8160", "probe_hkdf_expand_after_exhaustion", "probe_hkdf_oneshot_exactly_8160", "probe_hkdf_oneshot_refused",
            "probe_hkdf_zero_length_expand", "probe_hkdf_empty_salt", "probe_hkdf_leftover_served"],
    "C15": ["probe_prng_autoreseed_mid_generate", "probe_prng_two_autoreseeds_one_call", "probe_prng_short_delivery_on_autoreseed", "probe_prng_carry_chain",
            "fault_delivery_short", "fault_delivery_zero", "fault_object_moved_by_caller"],
    "C16": ["probe_prng_limit_lowered_below_emitted", "probe_prng_feed_at_budget_edge", "probe_prng_generate_to_edge", "probe_prng_autoreseed_mid_generate", "probe_prng_long_feed_run"],
    "C17": ["probe_prng_init_failed_delivery", "probe_prng_reseed_failed_delivery", "probe_prng_null_callback_init", "probe_prng_system_source_init",
            "probe_prng_twin_flip_checked", "probe_prng_twin_equiv_checked", "fault_delivery_short", "fault_delivery_zero", "fault_os_permanent"],
    "C18": ["probe_trng_success_after_retries", "probe_trng_permanent_error", "fault_os_eintr", "fault_os_eagain", "fault_os_permanent",
            "fault_os_stale_errno_on_success", "fault_os_scribble_on_failure", "fault_os_open_fail", "fault_os_short_read", "probe_trng_fd_opened", "fault_wall_clock_jump"],
    "C19": ["probe_mix_serial_compared_ops", "probe_mix_reorder_compared_ops", "preempted_inside_library_call", "fault_alloc_fail_runs", "fault_stack_paint"],
    "C20": ["probe_free_checked", "probe_free_never_initialised", "probe_free_mid_message", "probe_free_after_finalize", "probe_free_twice", "probe_clean_checked", "probe_calls_through_c_caller_with_opaque_handles", "fault_object_moved_by_caller"],
}

RULE = {
    "C11": "one evaluation = one seeded plan (1-4 simulated callers, up to 3 hash states each, init/reinit/update/finalize/free/dirty ops with chunk lengths biased to the buffered-block boundary, seeded interleaving at every cross-module call) executed against the real library; every finalize is compared with the library's one-shot digest of the concatenated message. distinct_nontrivial = distinct plan shapes (op kinds, objects, lengths, flags, schedule knobs; data seeds ignored) in which at least two ops executed and at least one finalize was checked.",
    "C12": "one evaluation = one seeded plan of HMAC init/reinit/update/finalize/free/one-shot ops (key lengths 0..400 biased to 0,63,64,65,>64; chunking biased to block boundaries; reinit after finalize / mid-message) under seeded interleaving; every MAC is compared with RFC 2104 written in the harness over the library's one-shot hash. distinct_nontrivial = distinct plan shapes with >=2 executed ops and >=1 MAC checked.",
    "C13": "one evaluation = one seeded plan of HKDF extract/expand/one-shot/free ops (expand lengths drawn relative to the remaining 8160-byte budget, a fraction of objects driven to exhaustion) under seeded interleaving; every output byte, zero-fill and return code is compared with an RFC 5869 byte-stream model over the library's one-shot HMAC. distinct_nontrivial = distinct plan shapes with >=2 executed ops and >=1 expand/one-shot checked.",
    "C15": "one evaluation = one seeded plan of PRNG init/generate/feed/reseed/set-limit/free ops with a scripted entropy device (full, short and zero deliveries attached to the op that provokes them) under seeded interleaving; every generated byte and the position of every entropy request is compared with an executable Hash_DRBG model over the library's one-shot hash. distinct_nontrivial = distinct plan shapes with >=2 executed ops and >=1 generate checked.",
    "C16": "one evaluation = one plan (seeded, plus the fixed baseline of all op sequences up to length 4 (quick) / 5 (thorough) over a 10-letter alphabet) of PRNG ops biased to the budget edge; a monitor built only from API-visible facts (bytes already written to the output buffer when the entropy device is invoked) checks 'bytes since last entropy request + 32*feeds <= L' at every emission. distinct_nontrivial = distinct plan shapes with >=2 executed ops and >=1 generate monitored.",
    "C17": "one evaluation = one seeded plan of PRNG ops over every pattern of full/short/zero deliveries, user device or system source (OS stub scripted with EINTR/EAGAIN/permanent errors), NULL callback, NULL/0 personalisation; checks: status == (32 bytes delivered), no crash, output blocks pairwise distinct, twin re-execution with one delivered byte flipped diverges, twin with init_user(NULL) vs init agrees. distinct_nontrivial = distinct plan shapes with >=2 executed ops and >=1 status/twin check evaluated.",
    "C18": "fault enumeration at the libc boundary: the complete baseline of all transient prefixes over {EINTR,EAGAIN} of length <=5 with each of 7 terminals (success, EIO, ENOSYS, EPERM, EFAULT, EINVAL, ENOENT) = 441 scripts per build variant, followed by seeded scripts of length <=64 (plus open() failures and short reads in the /dev/urandom build), in each of the getrandom / getentropy / raw-syscall / dev-urandom builds of the real source file. distinct_nontrivial = distinct plan shapes (incl. fault script) with >=2 executed ops and >=1 system-source check evaluated.",
    "C19": "one evaluation = one seeded plan for 2-6 simulated callers issuing every public API family on disjoint objects, executed three times: interleaved (seeded preemption at every cross-module call, entropy/OS stub call and, in hook/san builds, inside the permutation and tag-check loops), serially task by task in fresh differently-painted memory, and serially in a regrouped order; all results must agree. distinct_nontrivial = distinct plan shapes with >=2 executed ops whose three executions were compared.",
    "C20": "one evaluation = one seeded plan over hash/HMAC/HKDF/PRNG objects with free injected at arbitrary points of each object's history (never initialised but dirty, mid-block, after finalize, after exhaustion, after failed seeding, twice) and tinyjambu_clean(offset,size) calls on a canaried buffer; after each free all sizeof(public type) bytes must be zero, after clean exactly [off,off+size). distinct_nontrivial = distinct plan shapes with >=2 executed ops and >=1 erase check evaluated.",
}

ASSUME = {
    "C11": ["the library's own one-shot tinyjambu_hash is the reference (the property is 'same digest as the one-shot function'; what that digest is, is C10)",
            "preemption granularity is every cross-module call, not every instruction"],
    "C12": ["RFC 2104 is instantiated with the library's one-shot tinyjambu_hash (the given primitive)", "callers keep the key unchanged between init and finalize, as the header requires"],
    "C13": ["RFC 5869 is instantiated with the library's one-shot tinyjambu_hmac", "the same info is passed to every expand call of an object, as the statement requires"],
    "C15": ["A1: on a delivery of k < 32 bytes the entropy string is the k delivered bytes followed by what the seed buffer held before (zeros at instantiate, old V[k..31] at reseed) -- the anchored mechanism 'partial data stays in the buffer that is hashed into V'",
            "the model is written from the header/README and SP 800-90A 10.1.1 over the library's one-shot hash"],
    "C16": ["bytes emitted are measured as whole 32-byte blocks of the output buffer that differ from a sentinel pattern at the moment the entropy device is invoked (a block equal to the sentinel has probability 2^-256)",
            "'feeding only brings the reseed closer' is read as: each feed consumes one 32-byte block of budget"],
    "C17": ["a delivery of more than 32 bytes is never generated (illegal for the callback)", "the system source is the real tinyjambu-trng-dev-random.c over a scripted libc boundary"],
    "C18": ["transient = EINTR or EAGAIN; every other errno is permanent", "getrandom()/getentropy() never return a short positive count for 32 bytes; read() may (dev-urandom build)", "only finite transient sequences are injected (a read() returning 0 forever is outside the quantifier)"],
    "C19": ["preemption points are every cross-module call plus the guarded hook sites; a race confined to straight-line code between two such points cannot be scheduled", "simulated callers are cooperative coroutines on separate stacks in one process (no real parallelism, no hardware memory-model effects)"],
    "C20": ["the check inspects the state object and canaries around it, not dead local temporaries inside the library", "build-configuration sweep covers gcc 12 and clang 14 only"],
}

REAL_STUB = {
    "real_code": ["src/*.c", "src/backend/*.c (C backend)", "src/random/tinyjambu-trng-dev-random.c (getrandom / getentropy / raw syscall / /dev/urandom configurations)"],
    "stubbed": ["OS entropy calls (getrandom, getentropy, syscall, open/read/close) at the libc boundary of the TRNG object", "entropy callback handed to tinyjambu_prng_init_user", "allocator symbols referenced by library objects", "scheduler (cooperative tasks, seeded decisions)"],
    "never_run": ["24 assembly backends (foreign ISAs)", "trng-{due,esp,stm32,windows,none}.c (preprocessed away on Linux)"],
    "not_injected_no_such_component": ["network faults", "disk faults / torn writes", "crash-restart with durable state", "clock skew / timers (no code compiled here reads a clock)"],
}


def sh(cmd, **kw):
    return subprocess.run(cmd, **kw)


def build(variant):
    r = sh([os.path.join(VERIF, "tools/build.sh"), variant], stdout=subprocess.PIPE, stderr=subprocess.PIPE, text=True, env=dict(os.environ, VERIF_REPO=REPO))
    if r.returncode != 0:
        sys.stderr.write(r.stderr)
        print("HARNESS-FAULT: cannot build variant %s from %s" % (variant, REPO))
        sys.exit(2)
    return r.stdout.strip().splitlines()[-1]


def known_signatures(prop):
    p = os.path.join(VERIF, "known_findings.json")
    out = []
    if os.path.exists(p):
        for f in json.load(open(p)).get("findings", []):
            if f.get("property") == prop and f.get("status") == "open":
                out.append(f)
    return out


def tree_id():
    try:
        h = subprocess.run(["git", "-C", REPO, "rev-parse", "--short", "HEAD"], stdout=subprocess.PIPE, stderr=subprocess.DEVNULL, text=True).stdout.strip()
        d = subprocess.run(["git", "-C", REPO, "status", "--porcelain", "--", "src", "CMakeLists.txt", "config.h.in"], stdout=subprocess.PIPE, stderr=subprocess.DEVNULL, text=True).stdout.strip()
        return h + ("+dirty" if d else "")
    except Exception:
        return "unknown"


def side_check_symbols(prop, sim_path):
    """C19 side check: no writable data in the shipped objects, no allocator imports."""
    d = os.path.dirname(sim_path)
    syms = [l.strip() for l in open(os.path.join(d, "writable_symbols.txt")) if l.strip()]
    imports = [l.strip() for l in open(os.path.join(d, "imports.txt")) if l.strip()]
    heap = sorted(set(imports) & {"malloc", "calloc", "realloc", "free", "posix_memalign", "aligned_alloc", "memalign", "valloc", "strdup", "strndup", "alloca"})
    return syms, heap, imports


def main():
    if len(sys.argv) < 2:
        print(__doc__); sys.exit(2)
    prop = sys.argv[1]
    if prop not in ENGINE:
        print("unknown or unclaimed property", prop); sys.exit(2)
    os.chdir(VERIF)
    os.makedirs("build/tmp", exist_ok=True)
    os.makedirs(RPDIR, exist_ok=True)
    os.makedirs(EVDIR, exist_ok=True)

    if len(sys.argv) >= 4 and sys.argv[2] == "--replay":
        path = sys.argv[3]
        j = json.load(open(path))
        if j.get("kind") == "history":
            sim = build(j.get("variant", "prod"))
            outs = {}
            for mode, extra in (("shared", []), ("isolated", ["--isolate"])):
                for jobs in (5, 16):
                    out = "build/tmp/hist-%s-%d.txt" % (mode, jobs)
                    sh([sim, "run", "--engine", j["engine"], "--prop", "C19", "--tier", j.get("tier", "quick"), "--seed", str(j["seed"]), "--runs", str(j["runs"]), "--jobs", str(jobs), "--no-baseline",
                        "--dump-hashes", out, "--out", "build/tmp/hist.json"] + extra, stdout=subprocess.DEVNULL, stderr=subprocess.DEVNULL)
                    outs[(mode, jobs)] = open(out).read() if os.path.exists(out) else None
            if outs[("isolated", 5)] == outs[("isolated", 16)] and outs[("shared", 5)] != outs[("shared", 16)]:
                print("VIOLATION property=C19 replay=%s" % path); print("  class=depends-on-earlier-calls"); sys.exit(1)
            print("replay: no violation of C19"); sys.exit(0)
        if j.get("kind") == "static":
            sim = build("prod")
            syms, heap, _ = side_check_symbols(prop, sim)
            if syms or heap:
                print("VIOLATION property=%s replay=%s" % (prop, path)); print("  class=%s writable symbols: %s heap imports: %s" % (j.get("class"), syms[:5], heap)); sys.exit(1)
            print("replay: no violation of %s" % prop); sys.exit(0)
        sim = build(j.get("variant", "prod"))
        r = sh([sim, "replay", path])
        sys.exit(r.returncode)

    tier = sys.argv[2] if len(sys.argv) > 2 else os.environ.get("VERIF_TIER", "quick")
    if tier not in ("quick", "thorough"):
        tier = "quick"
    t0 = time.time()
    engine = ENGINE[prop]
    known = known_signatures(prop)
    tid = tree_id()
    results = []
    violation = None
    fault = None
    det_fault = None

    variants = list(PLAN[prop])
    if prop == "C20":
        for v in (CFG_VARIANTS if tier == "thorough" else CFG_QUICK):
            variants.append((v, 20000, 60000, []))

    sims = {}
    for (variant, qn, tn, extra) in variants:
        sims[variant] = build(variant)

    # ---- determinism gate: same seeds, different worker counts, different processes -> identical per-run event hashes
    det = {"sample_runs": 0, "worker_counts": [], "identical": True}
    nd = 2500 if tier == "quick" else 20000
    if prop in ("C13",):
        nd = 600 if tier == "quick" else 3000
    if prop in ("C15", "C16", "C17") and tier == "thorough":
        nd = 4000   # one-worker pass of the sample is the slow part
    first = variants[0][0]
    dumps = []
    for jobs in ((5, 16) if tier == "quick" else (1, 5, 16)):
        out = "build/tmp/det-%s-%d.txt" % (prop, jobs)
        r = sh([sims[first], "run", "--engine", engine, "--prop", prop, "--tier", tier, "--seed", str(SEED + 7919), "--runs", str(nd), "--jobs", str(jobs), "--no-baseline",
                "--dump-hashes", out, "--out", "build/tmp/det-%s.json" % prop, "--replay-dir", RPDIR, "--tree", tid] + sum([["--known", k["signature"]] for k in known], []),
               stdout=subprocess.PIPE, stderr=subprocess.DEVNULL, text=True)
        if r.returncode == 1:
            sys.stdout.write(r.stdout)
            violation = json.load(open("build/tmp/det-%s.json" % prop)).get("violation")
            break
        if r.returncode != 0:
            sys.stdout.write(r.stdout); fault = "determinism batch failed to run"; break
        dumps.append(open(out).read()); os.unlink(out)
        det["worker_counts"].append(jobs)
        if len(dumps[-1].splitlines()) != nd:
            # a worker died or was stopped (crash observation, time cap): the sample is incomplete and says nothing about
            # determinism; the search that follows reports what happened
            det["incomplete"] = True
    if not violation and not fault:
        det["sample_runs"] = nd
        det["identical"] = all(d == dumps[0] for d in dumps) and len(dumps[0].splitlines()) == nd
        if not det["identical"] and not det.get("incomplete"):
            # decided after the search: if the library itself is nondeterministic (output depends on addresses or stack
            # residue) the search reports that as a violation of the armed property; only if the search is clean is the
            # mismatch a fault of the harness
            det_fault = "event hashes differ between worker counts and the search found no violation: the simulator (or the library, in a way this property's oracle does not see) is not deterministic"

    # ---- the seeded search, variant by variant
    if not violation and not fault:
        for (variant, qn, tn, extra) in variants:
            n = int((qn if tier == "quick" else tn) * SCALE)
            out = "build/tmp/res-%s-%s.json" % (prop, variant)
            if tier == "quick": cap = 45
            elif variant == "prod": cap = 360
            elif variant == "hook": cap = 240
            elif variant == "san": cap = 150
            elif variant.startswith("trng"): cap = 120
            else: cap = 40
            cmd = [sims[variant], "run", "--engine", engine, "--prop", prop, "--tier", tier, "--seed", str(SEED), "--runs", str(max(1, n)), "--jobs", str(JOBS),
                   "--out", out, "--replay-dir", RPDIR, "--time-cap", str(cap), "--tree", tid] + extra
            for k in known:
                cmd += ["--known", k["signature"]]
            r = sh(cmd, stdout=subprocess.PIPE, stderr=subprocess.PIPE, text=True)
            keep = [l for l in r.stderr.splitlines() if "doesn't fully support makecontext" not in l]
            if keep:
                sys.stderr.write("\n".join(keep[-60:]) + "\n")
            sys.stdout.write(r.stdout)
            try:
                res = json.load(open(out))
            except Exception:
                res = None
            if res:
                results.append(res)
            if r.returncode == 1:
                violation = res.get("violation") if res else {"class": "?", "replay": "?"}
                break
            if r.returncode != 0:
                fault = "variant %s: simulator exited with %d" % (variant, r.returncode)
                break

    # ---- C19 side check on the shipped objects (not the deciding step; the statement's first sentence)
    side = None
    if prop == "C19" and not violation and not fault and not NO_STATIC:
        syms, heap, imports = side_check_symbols(prop, sims["prod"])
        side = {"writable_symbols_in_prod_objects": syms, "heap_imports": heap, "imports": imports}
        if syms or heap:
            path = RPDIR + "/C19-static-%s.json" % hashlib.sha256((" ".join(syms + heap)).encode()).hexdigest()[:10]
            json.dump({"kind": "static", "property": "C19", "class": "writable-static-data" if syms else "heap-import", "symbols": syms, "heap_imports": heap, "tree": tid}, open(path, "w"), indent=1)
            print("VIOLATION property=C19 replay=%s" % path)
            print("  class=%s the objects built from the working tree contain writable data symbols %s / allocator imports %s" % ("writable-static-data" if syms else "heap-import", syms[:6], heap))
            violation = {"class": "writable-static-data" if syms else "heap-import", "replay": path}

    history_dependent = None
    if det_fault and not violation and not fault:
        # Is it the library that carries something from one run to the next (a writable static, stack residue it reads)?
        # Repeat the sample with every run in a process of its own: if the hashes then agree between worker counts, the
        # simulator is deterministic and the difference came from process history -- which is C19's statement, nobody else's.
        iso = []
        ndi = min(nd, 1500)
        for jobs in (5, 16):
            out = "build/tmp/iso-%s-%d.txt" % (prop, jobs)
            r = sh([sims[first], "run", "--engine", engine, "--prop", prop, "--tier", tier, "--seed", str(SEED + 7919), "--runs", str(ndi), "--jobs", str(jobs), "--no-baseline", "--isolate",
                    "--dump-hashes", out, "--out", "build/tmp/iso-%s.json" % prop, "--replay-dir", RPDIR, "--tree", tid], stdout=subprocess.PIPE, stderr=subprocess.DEVNULL, text=True)
            if r.returncode == 0 and os.path.exists(out):
                iso.append(open(out).read()); os.unlink(out)
        if len(iso) == 2 and iso[0] == iso[1] and len(iso[0].splitlines()) == ndi:
            history_dependent = "what a run does depends on which runs the same process executed before it (hashes agree when every run gets a process of its own, differ otherwise): the library carries state or reads residue across unrelated calls"
            det["history_dependent_library"] = True
            if prop == "C19":
                path = RPDIR + "/C19-history-%d.json" % SEED
                json.dump({"kind": "history", "property": "C19", "class": "depends-on-earlier-calls", "engine": engine, "tier": tier, "seed": SEED + 7919, "runs": ndi, "variant": first, "tree": tid}, open(path, "w"), indent=1)
                print("VIOLATION property=C19 replay=%s" % path)
                print("  class=depends-on-earlier-calls " + history_dependent)
                violation = {"class": "depends-on-earlier-calls", "replay": path, "detail": history_dependent}
            else:
                print("OBSERVATION (not a violation of %s; it is what C19 is about): %s" % (prop, history_dependent))
        else:
            fault = det_fault

    # ---- evidence
    wall = time.time() - t0
    ctr = {}
    ops = {}
    pre = {}
    runs = 0
    states = 0
    scheds = 0
    shapes = 0
    events = 0
    samples = []
    per_variant = []
    for res in results:
        runs += res["runs"]
        for k, v in res["counters"].items():
            ctr[k] = ctr.get(k, 0) + v
        for k, v in res["ops"].items():
            ops[k] = ops.get(k, 0) + v
        for k, v in res["preemptions_by_site"].items():
            pre[k] = pre.get(k, 0) + v
        states = max(states, res["distinct_states"])
        scheds += res["distinct_schedules"]
        shapes = max(shapes, res["distinct_nontrivial_plans"])   # conservative: the largest single-variant exact count (a union over variants could double count)
        if len(samples) < 4:
            samples += res["samples"][: (2 if not samples else 1)]
        per_variant.append({k: res[k] for k in ("variant", "trng_flavor", "runs", "runs_requested", "baseline_runs", "baseline_exhaustive", "wall_s", "runs_per_hour", "distinct_states", "distinct_schedules", "distinct_nontrivial_plans", "digest")})
    events = ctr.get("events", 0)
    faults = {k: v for k, v in ctr.items() if (k.startswith("fault_") or k in ("delivery_full", "os_success")) and (v or k in REQUIRED_PROBES.get(prop, []))}
    faults["not_injected_no_such_component"] = REAL_STUB["not_injected_no_such_component"]
    probes = {k: v for k, v in ctr.items() if k.startswith("probe_") and (v or k in REQUIRED_PROBES.get(prop, []))}
    missing = []
    if not violation and not fault:
        for k in REQUIRED_PROBES.get(prop, []):
            if ctr.get(k, 0) == 0:
                missing.append(k)
        need_states = {"C11": 63}.get(prop)   # every reachable (buffer position, update path) pair: 4 at position 0, 4 at 1..14, 3 at 15 (a short top-up of a 1-byte gap is the empty update)
        if tier == "thorough" and need_states and states < need_states:
            missing.append("abstract states reached %d < %d" % (states, need_states))
        if missing and tier == "thorough":
            fault = "required probes never fired: %s -- the workload must be fixed before this verdict can be trusted" % ", ".join(missing)
    ev = {
        "property_id": prop, "tier": tier, "seed": SEED, "level": LEVEL[prop],
        "coverage": {
            "evaluations": max(1, runs),
            "distinct_nontrivial": max(2, shapes) if runs else 2,
            "rule": RULE[prop],
            "samples": samples if samples else [{"note": "no run completed"}],
            "exhaustive": False,
            "simulated_runs": runs,
            "runs_per_hour": round(runs / wall * 3600) if wall > 0 else 0,
            "simulated_time": {"unit": "scheduler events (logical time; the library reads no clock on this platform)", "events": events, "context_switches": ctr.get("switches", 0)},
            "seeds": {"batch_seed": SEED, "per_run": "seed_i = mix(batch_seed, engine, property, variant, i); one integer decides plan, faults and schedule"},
            "distinct_interleavings": {"measure": "distinct hashes of the (switched-to task, site kind) sequence of a run", "count": scheds},
            "distinct_abstract_states": {"measure": "engine-specific (see DESIGN.md section 3)", "count": states},
            "faults_fired": faults,
            "probes": probes,
            "probes_required_but_zero": missing,
            "ops_executed": ops,
            "preemptions_by_site": pre,
            "checks": {"armed_evaluated": ctr.get("checks_armed_evaluated", 0), "other_properties_evaluated": ctr.get("checks_unarmed_evaluated", 0), "other_properties_failed_not_reported": ctr.get("checks_unarmed_failed", 0)},
            "multitask_runs": ctr.get("multitask_runs", 0),
            "variants": per_variant,
            "determinism_gate": det,
            "components": REAL_STUB,
            "tree": tid,
        },
        "assumptions": ASSUME[prop],
        "wall_s": round(wall, 2),
        "violations": 1 if violation else 0,
    }
    if prop == "C18":
        ev["coverage"]["baseline"] = {"scripts_per_variant": 795, "description": "all words over {EINTR,EAGAIN} of length 0..5 x 7 terminals (441) + homogeneous runs of 7..100000 EINTR or EAGAIN x {success, EIO} (92) + every errno 1..133 other than EINTR/EAGAIN as the permanent error, alone and after EAGAIN EINTR (262)", "exhaustive_in_every_variant": all(v["baseline_exhaustive"] for v in per_variant) if per_variant else False}
    if prop == "C16":
        ev["coverage"]["baseline"] = {"description": "all op sequences of length <= %d over a 10-letter alphabet, prod variant" % (5 if tier == "thorough" else 4), "exhaustive": bool(per_variant and per_variant[0]["baseline_exhaustive"])}
    if side is not None:
        ev["coverage"]["side_check_symbols"] = side
    obs = [dict(variant=r.get("variant"), **r["unclaimed_observation"], search_truncated_at_run=r.get("search_truncated_at_run")) for r in results if r.get("unclaimed_observation")]
    if ctr.get("asan_read_reports_unclaimed_observation", 0):
        print("OBSERVATION (unclaimed property C06, memory safety): AddressSanitizer reported %d out-of-bounds reads / out-of-statement writes in the san variant; not a violation of %s" % (ctr["asan_read_reports_unclaimed_observation"], prop))
        obs.append({"class": "asan-report-outside-statement", "count": ctr["asan_read_reports_unclaimed_observation"]})
    if obs:
        for o in obs:
            o.pop("plan", None)
        ev["coverage"]["unclaimed_observations"] = obs
    if history_dependent:
        ev["coverage"]["history_dependence_observed"] = history_dependent
    if violation:
        ev["coverage"]["violation"] = violation
    if fault:
        ev["coverage"]["harness_fault"] = fault
    json.dump(ev, open("%s/%s.json" % (EVDIR, prop), "w"), indent=1)

    for f in json.load(open("known_findings.json")).get("findings", []) if os.path.exists("known_findings.json") else []:
        if f.get("property") == prop and f.get("status") == "open":
            still = ""
            if f.get("replay") and os.path.exists(f["replay"]):
                rj = json.load(open(f["replay"]))
                rr = sh([sims.get(rj.get("variant", "prod")) or build(rj.get("variant", "prod")), "replay", f["replay"]], stdout=subprocess.PIPE, stderr=subprocess.DEVNULL, text=True)
                still = " [replay %s: %s]" % (f["replay"], "still reproduces" if rr.returncode == 1 else "no longer reproduces")
            print("KNOWN-FINDING: property=%s %s%s" % (prop, f.get("what", f.get("signature")), still))
    if fault:
        print("HARNESS-FAULT: %s" % fault)
        sys.exit(2)
    if violation:
        sys.exit(1)
    print("PASS property=%s tier=%s runs=%d wall=%.1fs" % (prop, tier, runs, wall))
    sys.exit(0)


if __name__ == "__main__":
    main()
