#!/usr/bin/env bash
# tools/verify_seed.sh <worktree> <seed dir>  -- confirm an independently written breaking change:
#   unpatched: builds, ctest passes, demo passes;  patched: builds, ctest passes, demo fails.
set -u
WT="$1"; SD="$2"
cd "$WT" || exit 2
git checkout -q -- src 2>/dev/null
run_demo() {
  if [ -f "$SD/build.sh" ]; then sh "$SD/build.sh" >"$SD/.demo.log" 2>&1; return $?; fi
  cc -std=gnu99 -O2 -I"$WT/src" "$SD/demo.c" "$WT/_b/src/libtinyjambu_static.a" -lpthread -o "$WT/_b/demo_bin" >"$SD/.demo.log" 2>&1 || return 99
  "$WT/_b/demo_bin" >>"$SD/.demo.log" 2>&1; return $?
}
build_test() {
  rm -rf _b; cmake -S . -B _b -G Ninja >/dev/null 2>&1 && cmake --build _b >_b.log 2>&1 || { echo "BUILD-FAIL"; return 1; }
  ctest --test-dir _b -j8 --timeout 900 >_b.ctest 2>&1 || { echo "CTEST-FAIL"; return 1; }
  return 0
}
res="$(basename "$WT")/$(basename "$SD"):"
build_test && res="$res base:build+ctest=ok" || res="$res base:FAILED"
run_demo; d0=$?; res="$res demo=$d0"
git apply "$SD/patch.diff" || { echo "$res PATCH-DOES-NOT-APPLY"; exit 1; }
build_test && res="$res | patched:build+ctest=ok" || res="$res | patched:build/ctest FAILED"
run_demo; d1=$?; res="$res demo=$d1"
git checkout -q -- src; rm -rf _b _b.log _b.ctest "$SD/.demo.log"
if [ "$d0" = 0 ] && [ "$d1" != 0 ] && [ "$d1" != 99 ] && [[ "$res" != *FAILED* ]]; then echo "$res CONFIRMED"; else echo "$res NOT-CONFIRMED"; fi
