#!/usr/bin/env bash
# Build the simulator (harness + every library variant of the current tree) from files on disk only,
# then prove determinism on a sample: same seeds, worker counts 1/5/16, separate processes, identical event hashes.
set -euo pipefail
cd "$(dirname "$0")/.."
mkdir -p build/tmp replays evidence
VARIANTS="prod san hook ndebug trng-getrandom trng-getentropy trng-syscall trng-devurandom cfg-gcc-O2-vol cfg-clang-O3-vol cfg-gcc-O0-bz"
for v in $VARIANTS; do tools/build.sh "$v" >/dev/null; done
S=$(tools/build.sh prod)
fail=0
for pe in "C11 stream 2000" "C12 stream 2000" "C13 stream 400" "C20 stream 2000" "C15 prng 2000" "C16 prng 2000" "C17 prng 2000" "C18 trng 2000" "C19 mix 2000"; do
  set -- $pe
  for j in 1 5 16; do
    "$S" run --engine "$2" --prop "$1" --seed 4242 --runs "$3" --jobs "$j" --no-baseline --dump-hashes "build/tmp/setup-$1-$j.txt" --out "build/tmp/setup-$1.json" >/dev/null 2>&1 || { echo "setup: $1 batch failed at jobs=$j"; fail=1; }
  done
  if cmp -s "build/tmp/setup-$1-1.txt" "build/tmp/setup-$1-5.txt" && cmp -s "build/tmp/setup-$1-1.txt" "build/tmp/setup-$1-16.txt"; then
    echo "determinism $1: $(wc -l < build/tmp/setup-$1-1.txt) runs identical at 1/5/16 workers"
  else
    echo "determinism $1: MISMATCH"; fail=1
  fi
  rm -f build/tmp/setup-$1-*.txt build/tmp/setup-$1.json
done
exit $fail
