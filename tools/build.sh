#!/usr/bin/env bash
# Build one variant of the simulator against the CURRENT working tree of the repository.
#   tools/build.sh <variant>      -> prints the path of the sim binary on stdout
# Variants: prod hook hookvol san ndebug trng-getrandom trng-getentropy trng-syscall trng-devurandom
#           cfg-<cc>-<O>-<bz|vol>   (cc: gcc|clang; O: O0|O1|O2|O3|Os)
# Everything lands under /verif/build (never /tmp); cached by content hash of the tree and of sim/.
set -euo pipefail
VERIF="$(cd "$(dirname "$0")/.." && pwd)"
REPO="${VERIF_REPO:-/repo}"
VARIANT="${1:?variant}"
B="$VERIF/build"
mkdir -p "$B"
exec 9>"$B/.lock"
flock 9

hash_files() { (cd "$1" && shift && find "$@" -type f \( -name '*.c' -o -name '*.h' -o -name '*.S' -o -name '*.txt' -o -name '*.in' -o -name '*.hpp' -o -name '*.cpp' -o -name '*.sh' \) 2>/dev/null | LC_ALL=C sort | xargs -r sha256sum | sha256sum | cut -c1-16); }

TREE=$(hash_files "$REPO" src CMakeLists.txt config.h.in)
CFGH=$( (cd "$REPO" && cat CMakeLists.txt config.h.in src/CMakeLists.txt | sha256sum | cut -c1-16) )
SIMH=$(hash_files "$VERIF" sim tools/build.sh)

# ---- 1. the project's own configure step gives config.h and the compile flags
CFG="$B/cfg/$CFGH"
if [ ! -f "$CFG/ok" ]; then
  rm -rf "$CFG"; mkdir -p "$CFG"
  # configure from a pristine copy of the build description so that the test subdirectories need not exist in scratch trees
  if ! cmake -S "$REPO" -B "$CFG/b" -G Ninja -DCMAKE_EXPORT_COMPILE_COMMANDS=ON -DMINIMAL=ON >"$CFG/cmake.log" 2>&1; then
    echo "build.sh: cmake configure failed, see $CFG/cmake.log" >&2; exit 2
  fi
  cp "$CFG/b/config.h" "$CFG/config.h"
  python3 - "$CFG/b/compile_commands.json" "$REPO" >"$CFG/flags.txt" <<'EOF'
import json,sys,shlex
cc=json.load(open(sys.argv[1]))
lib=[e for e in cc if e['file'].endswith('.c') and 'tinyjambu_static' in (e.get('output','')+e.get('command',''))] or [e for e in cc if e['file'].endswith('.c')]
ent=lib[0]
# the source list of the static library, relative to src/ (the build description decides what is part of the library)
srcs=sorted(set(e['file'].split('/src/',1)[1] for e in lib if '/src/' in e['file']))
open(sys.argv[1].rsplit('/',2)[0]+'/sources.txt','w').write('\n'.join(srcs)+'\n')
args=shlex.split(ent['command'])
out=[];skip=False
for a in args[1:]:
    if skip: skip=False; continue
    if a in('-o','-c','-MF','-MT','-MQ'): skip=True; continue
    if a in('-MD','-MMD'): continue
    if a.startswith('-I'): continue
    if a.endswith('.c'): continue
    out.append(a)
print(' '.join(shlex.quote(x) for x in out))
EOF
  touch "$CFG/ok"
fi
PROJ_FLAGS="$(cat "$CFG/flags.txt")"     # e.g. -Wall -Wextra -DHAVE_CONFIG_H -O3 -std=gnu99

# ---- 2. harness objects (depend on sim/ only)
HARN_KIND=plain; case "$VARIANT" in san) HARN_KIND=asan;; esac
HDRH=$(sha256sum "$REPO/src/TinyJAMBU.h" | cut -c1-12)   # the harness includes the public header
H="$B/h/$SIMH-$HDRH/$HARN_KIND"
if [ ! -f "$H/ok" ]; then
  rm -rf "$H"; mkdir -p "$H"
  if [ "$HARN_KIND" = asan ]; then HCXX="clang++ -O1 -g -fsanitize=address -fsanitize-recover=address -fno-omit-frame-pointer"; HCC="clang -O1 -g -fsanitize=address -fsanitize-recover=address"
  else HCXX="g++ -O2 -g"; HCC="gcc -O2 -g"; fi
  pids=()
  for f in core engine gen run main; do
    $HCXX -std=c++17 -Wall -Wextra -Wno-unused-parameter -I"$VERIF/sim" -I"$REPO/src" -c "$VERIF/sim/$f.cpp" -o "$H/$f.o" & pids+=($!)
  done
  $HCC -Wall -c "$VERIF/sim/wrappers.c" -o "$H/wrappers.o" & pids+=($!)
  gcc -c "$VERIF/sim/wrappers_asm.S" -o "$H/wrappers_asm.o" & pids+=($!)
  # the C caller with opaque handles; typed handles if the tree's header cannot be used through `void *` (see sim/ccaller.c)
  ( $HCC -std=gnu99 -Wall -I"$REPO/src" -c "$VERIF/sim/ccaller.c" -o "$H/ccaller.o" 2>"$H/ccaller.log" \
    || $HCC -std=gnu99 -Wall -DSIM_TYPED_HANDLES -I"$REPO/src" -c "$VERIF/sim/ccaller.c" -o "$H/ccaller.o" 2>>"$H/ccaller.log" ) & pids+=($!)
  for p in "${pids[@]}"; do wait "$p" || { echo "build.sh: harness compile failed" >&2; exit 2; }; done
  touch "$H/ok"
fi
# ---- 3. library objects for this variant
T="$B/t/$TREE/$VARIANT"
OUT="$T/sim-$SIMH-$HDRH"
if [ ! -x "$OUT" ]; then
  rm -rf "$T"; mkdir -p "$T/o"
  CC=gcc; FLAGS="$PROJ_FLAGS"; EXTRA=""; TRNG_FLAVOR=getrandom; TRNG_MODE=config
  strip_O() { echo "$1" | sed -E 's/(^| )-O[0-3sg]( |$)/ /g'; }
  case "$VARIANT" in
    prod) ;;
    hook) FLAGS="$(strip_O "$FLAGS") -O2 -DTINYJAMBU_VERIF";;
    hookvol) FLAGS="$(strip_O "$FLAGS") -O2 -DTINYJAMBU_VERIF"; EXTRA="-DVERIF_NO_EXPLICIT_BZERO";;   # hook points + the volatile fallback of the clean primitive (what a build without config.h gets)
    ndebug) FLAGS="$(strip_O "$FLAGS") -O2 -DNDEBUG -funsigned-char";;   # somebody else's build: release configuration of most build systems (NDEBUG), plain char unsigned as on ARM/AArch64/PowerPC Linux
    san)  CC=clang; FLAGS="$(strip_O "$FLAGS") -O1 -g -fno-omit-frame-pointer -fsanitize=address -fsanitize-recover=address -mllvm -asan-opt-same-temp=0 -mllvm -asan-opt=0 -DTINYJAMBU_VERIF";;
    trng-getrandom)  TRNG_FLAVOR=getrandom;  TRNG_MODE=macros;;
    trng-getentropy) TRNG_FLAVOR=getentropy; TRNG_MODE=macros;;
    trng-syscall)    TRNG_FLAVOR=syscall;    TRNG_MODE=macros;;
    trng-devurandom) TRNG_FLAVOR=devurandom; TRNG_MODE=macros;;
    cfg-*)
      IFS=- read -r _ c o z <<<"$VARIANT"
      CC="$c"; FLAGS="$(strip_O "$FLAGS") -$o"
      if [ "$z" = vol ]; then EXTRA="-DVERIF_NO_EXPLICIT_BZERO"; fi;;
    *) echo "build.sh: unknown variant $VARIANT" >&2; exit 2;;
  esac
  INC="-I$REPO/src -I$CFG"
  if [ "$EXTRA" = "-DVERIF_NO_EXPLICIT_BZERO" ]; then
    # volatile-fallback configuration of the clean primitive: same config.h minus HAVE_EXPLICIT_BZERO / HAVE_MEMSET_S
    mkdir -p "$T/cfgvol"; grep -v -E 'HAVE_EXPLICIT_BZERO|HAVE_MEMSET_S' "$CFG/config.h" > "$T/cfgvol/config.h"
    INC="-I$REPO/src -I$T/cfgvol"
  fi
  SRCS=$(cat "$CFG/sources.txt")
  [ -n "$SRCS" ] || SRCS=$(cd "$REPO/src" && ls *.c backend/*.c random/*.c)
  pids=()
  for s in $SRCS; do
    o="$T/o/$(echo "$s" | tr '/' '_' | sed 's/\.c$/.o/')"
    if [ "$s" = random/tinyjambu-trng-dev-random.c ] && [ "$TRNG_MODE" = macros ]; then
      TF="$(echo "$FLAGS" | sed 's/-DHAVE_CONFIG_H//')"
      case "$TRNG_FLAVOR" in
        getrandom)  TF="$TF -DHAVE_SYS_RANDOM_H -DHAVE_GETRANDOM";;
        getentropy) TF="$TF -DHAVE_SYS_RANDOM_H -DHAVE_GETENTROPY";;
        syscall)    TF="$TF -DHAVE_SYS_SYSCALL_H";;
        devurandom) mkdir -p "$T/shadow/sys"; printf '#include_next <sys/syscall.h>\n#undef SYS_getrandom\n' > "$T/shadow/sys/syscall.h"; TF="$TF -I$T/shadow";;
      esac
      $CC $TF $INC -c "$REPO/src/$s" -o "$o" & pids+=($!)
    else
      $CC $FLAGS $INC -c "$REPO/src/$s" -o "$o" & pids+=($!)
    fi
  done
  for p in "${pids[@]}"; do wait "$p" || { echo "build.sh: compiling the repository failed (variant $VARIANT)" >&2; exit 2; }; done
  # the flavor really selected: read it off the objects' imports (before renaming)
  ( cd "$T/o" && nm -u *.o | awk 'NF==2{print $2}' | sort -u ) > "$T/imports.txt" || true
  if grep -qxE 'getrandom|__getrandom_chk' "$T/imports.txt"; then TRNG_FLAVOR=getrandom
  elif grep -qxE 'getentropy|__getentropy_chk' "$T/imports.txt"; then TRNG_FLAVOR=getentropy
  elif grep -qx syscall "$T/imports.txt"; then TRNG_FLAVOR=syscall
  else TRNG_FLAVOR=devurandom; fi
  # dictionary of the constants the code compares with or stores (immediates of 5+ hex digits and .rodata words):
  # messages, keys, salts and fed data occasionally carry them (and their complements / byte swaps) at block starts
  ( cd "$T/o" && { objdump -d --no-show-raw-insn *.o | grep -oE '\$0x[0-9a-f]{5,16}' | tr -d '$'; \
      objdump -s -j .rodata -j .rodata.cst4 -j .rodata.cst8 -j .rodata.cst16 *.o 2>/dev/null | awk '/^ [0-9a-f]+ /{for(i=2;i<=5;i++) if (length($i)==8) print "0x" substr($i,7,2) substr($i,5,2) substr($i,3,2) substr($i,1,2)}'; } | grep -E '^0x[0-9a-f]+$' | sort -u | head -400 ) > "$T/dict.txt" || true
  # symbol report of the untouched objects (C19 side check) before any renaming
  # (by section, not by nm letter: .data.rel.ro* holds relocated constants of position-independent builds and is read-only at run time)
  ( cd "$T/o" && for f in *.o; do nm --format=sysv "$f" 2>/dev/null | awk -F'|' -v f="$f" '{gsub(/ /,"",$1); gsub(/ /,"",$3); gsub(/ /,"",$4); gsub(/ /,"",$7)} $4=="OBJECT"||$4=="TLS"||$4=="COMMON" { sec=$7; if (sec ~ /^\.data\.rel\.ro/) next; if (sec ~ /^\.(data|bss|tdata|tbss|sdata|sbss)/ || sec=="*COM*") print f, $3, $1, sec }'; done ) > "$T/writable_symbols.txt" || true
  # seams at the libc boundary: OS entropy/file calls and the allocator, in every library object
  for f in "$T"/o/*.o; do
    objcopy --redefine-sym getrandom=verif_os_getrandom --redefine-sym getentropy=verif_os_getentropy --redefine-sym syscall=verif_os_syscall \
            --redefine-sym open=verif_os_open --redefine-sym open64=verif_os_open64 --redefine-sym read=verif_os_read --redefine-sym close=verif_os_close \
            --redefine-sym fcntl=verif_os_fcntl --redefine-sym fcntl64=verif_os_fcntl64 --redefine-sym dup=verif_os_dup \
            --redefine-sym nanosleep=verif_os_nanosleep --redefine-sym clock_nanosleep=verif_os_clock_nanosleep --redefine-sym usleep=verif_os_usleep \
            --redefine-sym sleep=verif_os_sleep --redefine-sym sched_yield=verif_os_sched_yield --redefine-sym clock_gettime=verif_os_clock_gettime \
            --redefine-sym gettimeofday=verif_os_gettimeofday --redefine-sym time=verif_os_time --redefine-sym clock=verif_os_clock \
            --redefine-sym getpid=verif_os_getpid \
            --redefine-sym __read_chk=verif_os_read_chk --redefine-sym __open_2=verif_os_open_2 --redefine-sym __open64_2=verif_os_open64_2 \
            --redefine-sym __getrandom_chk=verif_os_getrandom_chk --redefine-sym __getentropy_chk=verif_os_getentropy_chk \
            --redefine-sym malloc=verif_lib_malloc --redefine-sym calloc=verif_lib_calloc --redefine-sym realloc=verif_lib_realloc --redefine-sym free=verif_lib_free \
            --redefine-sym posix_memalign=verif_lib_posix_memalign --redefine-sym aligned_alloc=verif_lib_aligned_alloc "$f"
  done
  WRAPS=""
  for s in tinyjambu_permutation_128 tinyjambu_permutation_192 tinyjambu_permutation_256 \
           tinyjambu_setup_128 tinyjambu_absorb_128 tinyjambu_generate_tag_128 tinyjambu_setup_192 tinyjambu_absorb_192 tinyjambu_generate_tag_192 \
           tinyjambu_setup_256 tinyjambu_absorb_256 tinyjambu_generate_tag_256 tinyjambu_aead_check_tag tinyjambu_clean \
           tinyjambu_hash tinyjambu_hash_init tinyjambu_hash_reinit tinyjambu_hash_free tinyjambu_hash_update tinyjambu_hash_finalize \
           tinyjambu_hmac tinyjambu_hmac_init tinyjambu_hmac_reinit tinyjambu_hmac_free tinyjambu_hmac_update tinyjambu_hmac_finalize; do
    WRAPS="$WRAPS -Wl,--wrap=$s"
  done
  # the system entropy source is an internal function: find it by what it is (a global function of the library whose name
  # contains "trng_generate"), not by one fixed name, and generate the seam for that name
  TRNGSYM=$( (cd "$T/o" && nm -g --defined-only *.o 2>/dev/null | awk '$2=="T" && $3 ~ /trng_generate/ {print $3}' | head -1) )
  if [ -n "$TRNGSYM" ]; then
    cat > "$T/trngshim.c" <<EOF2
extern void sim_point_c(int, int); extern int sim_trng_pre(void); extern void sim_trng_post(int, const unsigned char *);
extern int __real_$TRNGSYM(unsigned char *out);
int __wrap_$TRNGSYM(unsigned char *out) { int r, on; sim_point_c(3, 144); on = sim_trng_pre(); r = __real_$TRNGSYM(out); if (on) sim_trng_post(r, out); sim_point_c(3, 145); return r; }
extern int $TRNGSYM(unsigned char *out);
int sim_trng_call(unsigned char *out) { return $TRNGSYM(out); }
EOF2
    WRAPS="$WRAPS -Wl,--wrap=$TRNGSYM"
  else
    printf 'int sim_trng_call(unsigned char *out) { (void)out; return -2; }\n' > "$T/trngshim.c"
  fi
  gcc -c "$T/trngshim.c" -o "$T/trngshim.o"
  if [ "$HARN_KIND" = asan ]; then LD="clang++ -fsanitize=address"; else LD="g++"; fi
  # variant name and TRNG flavor are baked in through a tiny generated object
  printf 'const char *sim_variant_name = "%s";\nconst char *sim_trng_flavor_name = "%s";\n' "$VARIANT" "$TRNG_FLAVOR" > "$T/variant.c"
  gcc -c "$T/variant.c" -o "$T/variant.o"
  if ! $LD -o "$OUT.tmp" "$H"/*.o "$T/variant.o" "$T/trngshim.o" "$T"/o/*.o $WRAPS > "$T/link.log" 2>&1; then
    echo "build.sh: link failed (variant $VARIANT):" >&2; head -30 "$T/link.log" >&2; exit 2
  fi
  mv "$OUT.tmp" "$OUT"
  echo "$TRNG_FLAVOR" > "$T/trng_flavor"
fi
# prune old trees (keep the 4 most recently used)
touch "$B/t/$TREE"
ls -1dt "$B"/t/* 2>/dev/null | tail -n +7 | xargs -r rm -rf
ls -1dt "$B"/h/* 2>/dev/null | tail -n +3 | xargs -r rm -rf
echo "$OUT"
