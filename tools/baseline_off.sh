#!/usr/bin/env bash
# Build the repository exactly as shipped (guard TINYJAMBU_VERIF off) and run its own test suite.
set -euo pipefail
VERIF="$(cd "$(dirname "$0")/.." && pwd)"
REPO="${VERIF_REPO:-/repo}"
D="$VERIF/build/baseline_off"
rm -rf "$D"; mkdir -p "$D"
cmake -S "$REPO" -B "$D" -G Ninja >"$D.cmake.log" 2>&1 || { cat "$D.cmake.log"; exit 2; }
cmake --build "$D" >"$D.build.log" 2>&1 || { tail -50 "$D.build.log"; exit 2; }
if grep -rq "tinyjambu_verif_point" "$D"/src/*.a 2>/dev/null; then echo "guard leaked into the default build"; exit 1; fi
ctest --test-dir "$D" -j8 --timeout 900 --output-junit "$D/junit.xml"
rc=$?
rm -rf "$D"/test "$D"/src/CMakeFiles
exit $rc
