#!/usr/bin/env python3
"""Sensitivity harness: apply each mutant (mutants/*.patch or seeded/*/patch.diff) to a scratch copy of /repo
outside /repo and /verif, run the owning property's check with VERIF_REPO pointing at the copy, expect the
VIOLATION (or silence for expect=silent), optionally run the other checks too (--cross) and the repository's
own test suite (--tests). Results go to mutants/results.json. The scratch copy and its build output are removed.

  tools/mutation_check.py [--only ID_SUBSTR] [--cross] [--tests] [--tier quick|thorough] [--seeded]
"""
import json, os, shutil, subprocess, sys, time, glob

VERIF = os.path.dirname(os.path.dirname(os.path.abspath(__file__)))
CLAIMED = ["C11", "C12", "C13", "C15", "C16", "C17", "C18", "C19", "C20"]


def run(cmd, **kw):
    return subprocess.run(cmd, stdout=subprocess.PIPE, stderr=subprocess.STDOUT, text=True, **kw)


def main():
    args = sys.argv[1:]
    only = None; cross = "--cross" in args; tests = "--tests" in args; tier = "quick"; seeded = "--seeded" in args; benign = "--benign" in args
    if "--only" in args: only = args[args.index("--only") + 1]
    if "--tier" in args: tier = args[args.index("--tier") + 1]
    only_props = args[args.index("--props") + 1].split(",") if "--props" in args else None
    items = []
    if benign:
        cross = True
        for d in sorted(glob.glob(os.path.join(VERIF, "benign", "*", "patch.diff"))):
            items.append(dict(id="benign-" + os.path.basename(os.path.dirname(d)), property="C11", patch=d, expect="silent-all", also_breaks=[]))
    elif seeded:
        for d in sorted(glob.glob(os.path.join(VERIF, "seeded", "*", "meta.json"))):
            m = json.load(open(d))
            items.append(dict(id="seeded-" + os.path.basename(os.path.dirname(d)), property=m["property"], patch=os.path.join(os.path.dirname(d), "patch.diff"), expect="fail", also_breaks=m.get("also_breaks", [])))
    else:
        for m in json.load(open(os.path.join(VERIF, "mutants", "index.json"))):
            items.append(dict(id=m["id"], property=m["property"], patch=os.path.join(VERIF, "mutants", m["id"] + ".patch"), expect=m["expect"], also_breaks=m["also_breaks"], note=m.get("note", "")))
    if only:
        items = [i for i in items if only in i["id"]]
    resfile = os.path.join(VERIF, "benign" if benign else "seeded" if seeded else "mutants", "results.json")
    results = {}
    if os.path.exists(resfile):
        results = json.load(open(resfile))
    bad = 0
    for it in items:
        scratch = "/tmp/tjm-%s-%d" % (it["id"], os.getpid())
        shutil.rmtree(scratch, ignore_errors=True)
        os.makedirs(scratch)
        run(["rsync", "-a", "--exclude", "_build", "--exclude", ".git", "/repo/", scratch + "/"])
        r = run(["git", "apply", it["patch"]], cwd=scratch) if benign else run(["patch", "-p1", "-s", "-i", it["patch"]], cwd=scratch)
        if r.returncode != 0:
            print("%-40s PATCH DOES NOT APPLY\n%s" % (it["id"], r.stdout)); bad += 1; shutil.rmtree(scratch, ignore_errors=True); continue
        rec = dict(property=it["property"], expect=it["expect"], checks={})
        if tests:
            bd = scratch + "/_b"
            r1 = run(["cmake", "-S", scratch, "-B", bd, "-G", "Ninja"]); r2 = run(["cmake", "--build", bd])
            r3 = run(["ctest", "--test-dir", bd, "-j8", "--timeout", "900"])
            rec["repo_tests_pass"] = (r1.returncode == 0 and r2.returncode == 0 and r3.returncode == 0)
            shutil.rmtree(bd, ignore_errors=True)
        props = CLAIMED if cross else [it["property"]]
        if only_props: props = [p for p in props if p in only_props] or only_props
        env = dict(os.environ, VERIF_REPO=scratch, VERIF_EVIDENCE_DIR="build/tmp/mut-evidence", VERIF_REPLAY_DIR="build/tmp/mut-replays")
        for p in props:
            t0 = time.time()
            r = run([os.path.join(VERIF, "tools/check.sh"), p, tier], env=env, cwd=VERIF)
            line = [l for l in r.stdout.splitlines() if l.startswith("VIOLATION")]
            cls = [l.strip() for l in r.stdout.splitlines() if l.strip().startswith("class=")]
            rec["checks"][p] = dict(exit=r.returncode, violation=bool(line), cls=(cls[0].split()[0][6:] if cls else ""), wall=round(time.time() - t0, 1))
            if r.returncode == 2:
                rec["checks"][p]["fault"] = r.stdout[-400:]
        own = rec["checks"].get(it["property"]) or next(iter(rec["checks"].values()))
        ok = (own["exit"] == 1 and own["violation"]) if it["expect"] == "fail" else (own["exit"] == 0)
        if it["expect"] == "silent-all":
            ok = all(c["exit"] == 0 for c in rec["checks"].values())
        rec["ok"] = ok
        fired = [p for p, c in rec["checks"].items() if c["exit"] == 1]
        print("%-44s %s owner=%s exit=%d cls=%s fired=%s %s" % (it["id"], "OK  " if ok else "MISS", it["property"], own["exit"], own["cls"], ",".join(fired), ("tests=%s" % rec.get("repo_tests_pass")) if tests else ""))
        sys.stdout.flush()
        if not ok: bad += 1
        prev = results.get(it["id"], {})
        if not cross and "checks" in prev:  # keep an earlier cross matrix, refresh the owner's cell
            prev["checks"].update(rec["checks"]); rec["checks"] = prev["checks"]
        if not tests and "repo_tests_pass" in prev: rec["repo_tests_pass"] = prev["repo_tests_pass"]
        results[it["id"]] = rec
        json.dump(results, open(resfile, "w"), indent=1, sort_keys=True)
        shutil.rmtree(scratch, ignore_errors=True)
        # drop the scratch tree's build output
        run(["bash", "-c", "cd %s/build/t && ls -1dt */ | tail -n +3 | xargs -r rm -rf" % VERIF])
    shutil.rmtree(os.path.join(VERIF, "build/tmp/mut-replays"), ignore_errors=True)
    print("%d mutants, %d not as expected" % (len(items), bad))
    sys.exit(1 if bad else 0)


if __name__ == "__main__":
    main()
