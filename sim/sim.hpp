// Deterministic simulator for rweather/TinyJAMBU -- shared declarations.
#pragma once
#include <cstdint>
#include <cstdio>
#include <cstdlib>
#include <cstring>
#include <string>
#include <vector>
#include <set>
#include <unordered_set>
#include <ucontext.h>
#include "json.hpp"
#include "TinyJAMBU.h"

#if defined(__has_feature)
#if __has_feature(address_sanitizer)
#define SIM_ASAN 1
#endif
#endif
#if defined(__SANITIZE_ADDRESS__)
#define SIM_ASAN 1
#endif

// ---------------------------------------------------------------- rng
static inline uint64_t sm64(uint64_t &x) {
    uint64_t z = (x += 0x9E3779B97F4A7C15ULL);
    z = (z ^ (z >> 30)) * 0xBF58476D1CE4E5B9ULL;
    z = (z ^ (z >> 27)) * 0x94D049BB133111EBULL;
    return z ^ (z >> 31);
}
static inline uint64_t mix2(uint64_t a, uint64_t b) {
    uint64_t x = a ^ (b + 0x9E3779B97F4A7C15ULL + (a << 6) + (a >> 2));
    return sm64(x);
}
struct Rng {
    uint64_t s;
    explicit Rng(uint64_t seed = 1) : s(seed) {}
    uint64_t next() { return sm64(s); }
    uint32_t below(uint32_t n) { return n ? (uint32_t)(next() % n) : 0; }
    uint64_t range(uint64_t lo, uint64_t hi) { return lo + next() % (hi - lo + 1); } // inclusive
    bool chance(uint32_t num, uint32_t den) { return below(den) < num; }
    // geometric-ish length with mean about m
    uint32_t geo(uint32_t m) { uint32_t r = 0; while (r < 40 * m && !chance(1, m + 1)) r++; return r; }
    template <class T> const T &pick(const std::vector<T> &v) { return v[below((uint32_t)v.size())]; }
};
void fill_bytes(uint8_t *p, size_t n, uint64_t seed, uint64_t tag);
extern std::vector<uint32_t> g_dict;   // 32-bit constants found in the library objects built from the tree (build.sh: dict.txt)

// ---------------------------------------------------------------- plan
enum OpKind : int {
    OP_NONE = 0,
    // hash objects
    H_INIT, H_REINIT, H_UPDATE, H_FINAL, H_FREE, H_DIRTY,
    // hmac objects
    M_INIT, M_REINIT, M_UPDATE, M_FINAL, M_FREE, M_DIRTY, M_ONESHOT,
    // hkdf objects
    K_EXTRACT, K_EXPAND, K_FREE, K_DIRTY, K_ONESHOT,
    // clean primitive
    X_CLEAN,
    // prng objects
    P_INIT, P_GEN, P_FEED, P_RESEED, P_LIMIT, P_FREE, P_DIRTY,
    // system entropy source
    T_GENERATE,
    // stateless one-shots (mix engine)
    A_ENC, A_DEC, S_ENC, S_DEC, H_ONESHOT, B_PBKDF2,
    OP_KIND_COUNT
};
const char *op_name(int k);
int op_from_name(const std::string &s);

// op flags
enum : uint32_t {
    F_NULLPTR = 1,    // pass NULL for a zero-length input
    F_ZERODATA = 2,   // data bytes all zero (minimiser target)
    F_NULLCB = 4,     // P_INIT: tinyjambu_prng_init_user with NULL callback
    F_SYSTEM = 8,     // P_INIT: tinyjambu_prng_init (system source)
    F_CORRUPT = 16,   // A_DEC/S_DEC: flip a bit in the packet
    F_INPLACE = 32,   // AEAD in-place
    F_NOCUSTOM = 64,  // P_INIT: custom = NULL, 0
    F_TWICE = 128,    // free: call twice in a row
    F_FORK = 256,     // the caller's process identity changes before this op (object inherited by a forked child)
    F_BOUNDARY = 512, // X_CLEAN: operate on memory placed at a 4 GiB address boundary
    F_NESTED = 1024,
    F_MOVED = 2048,   // the caller moved the state object to another address (plain struct copy) before this op
     // P_INIT: the entropy callback of this generator draws from generator op.c of the same caller
};

struct Op {
    int kind = OP_NONE;
    int obj = 0;
    uint32_t flags = 0;
    uint64_t a = 0, b = 0, c = 0, d = 0; // sizes / parameters (meaning per kind)
    uint64_t dseed = 0;                  // data seed for the bytes this op supplies
    std::vector<int> del;                // entropy deliveries (bytes) for successive device requests
    std::vector<std::vector<int>> os;    // OS scripts for successive system-source requests
};
struct TaskPlan { std::vector<Op> ops; };

enum SiteKind { SK_OP = 0, SK_API, SK_PERM, SK_INTERNAL, SK_DEVICE, SK_OS, SK_HOOK, SK_COUNT };

struct Plan {
    std::string engine;      // stream | prng | trng | mix
    uint64_t seed = 0;       // the run seed this plan was generated from (informational)
    uint64_t arena_seed = 1; // garbage fill of object memory
    uint64_t paint_seed = 1; // stack paint
    std::vector<TaskPlan> tasks;
    // schedule
    bool sched_explicit = false;
    uint64_t sched_seed = 1;
    uint32_t switch_permille = 0; // probability of a switch at an enabled yield point
    uint32_t site_mask = 0xFFFFFFFF;
    std::vector<int> sched;       // explicit decisions (replay / minimised)
    // knobs
    bool os_stale_errno = false;  // OS stub leaves a stale errno on success
    bool os_scribble = false;     // OS stub scribbles on the buffer of a failing call
    bool alloc_fail = false;      // allocator seam fails every request from library code
    int fd_base = 3;              // first fd number handed out by the simulated open()
    bool os_echo = false;         // OS stub may 'deliver' exactly the bytes the buffer already holds (a legal, if unlikely, answer)
    bool sleep_interrupt = false; // simulated sleeps may be interrupted (EINTR)
    uint64_t clock_step_ns = 0;   // simulated time that passes per OS call
    int64_t clock_jump_s = 0;     // the wall clock is stepped by this many seconds (either direction) at the 2nd and 5th OS call of a request
};
Json plan_to_json(const Plan &p);
bool plan_from_json(const Json &j, Plan &p);
uint64_t plan_shape_hash(const Plan &p);
size_t plan_op_count(const Plan &p);
// Known findings (signatures "<prop>:<class>@<OPKIND>[+FLAG]") whose class kills the process cannot be stepped over at run
// time; the operation shape they are identified by is taken out of plans instead. Returns true if anything was removed.
extern std::vector<std::string> g_known_hard;
bool plan_avoid_known(Plan &p);
std::string op_sig(int kind, uint32_t flags);

// ---------------------------------------------------------------- properties
enum Prop { PR_NONE = 0, C11, C12, C13, C15, C16, C17, C18, C19, C20, PR_COUNT };
const char *prop_name(int p);
int prop_from_name(const std::string &s);

struct Violation {
    bool set = false;
    int prop = PR_NONE;
    std::string cls;
    std::string detail;
    int task = -1, op = -1;
};

// ---------------------------------------------------------------- stats
enum Ctr {
    CT_RUNS, CT_OPS, CT_OPS_SKIPPED, CT_EVENTS, CT_SWITCHES, CT_YIELDS_ENABLED,
    CT_MULTITASK_RUNS, CT_PREEMPT_INSIDE_CALL,
    CT_CHECKS_ARMED, CT_CHECKS_UNARMED, CT_UNARMED_FAIL,
    // faults fired
    CT_F_DELIVERY_SHORT, CT_F_DELIVERY_ZERO, CT_F_DELIVERY_FULL,
    CT_F_OS_EINTR, CT_F_OS_EAGAIN, CT_F_OS_PERM, CT_F_OS_OK, CT_F_OS_OPENFAIL, CT_F_OS_SHORTREAD,
    CT_F_OS_STALE_ERRNO, CT_F_OS_SCRIBBLE, CT_F_DIRTY, CT_F_ABANDON, CT_F_FREE_INJECTED, CT_F_ALLOCFAIL_RUNS,
    CT_F_STACK_PAINT, CT_F_OS_ECHO, CT_F_SLEEP_INTERRUPTED, CT_F_SLEEPS, CT_F_CLOCK_READS, CT_F_FORK, CT_F_BOUNDARY, CT_F_NESTED_DRAW, CT_F_MOVED, CT_F_CLOCK_JUMP, CT_F_C_HANDLE,
    // probes
    CT_P_HASH_TOPUP_CONTINUE, CT_P_HASH_TOPUP_EXACT, CT_P_HASH_TOPUP_SHORT, CT_P_HASH_EMPTY_UPDATE, CT_P_HASH_NULL_UPDATE,
    CT_P_HASH_FINAL, CT_P_HASH_REINIT_MID, CT_P_HASH_INIT_AFTER_FREE, CT_P_HASH_INIT_AFTER_FINAL,
    CT_P_HMAC_KEY_EMPTY, CT_P_HMAC_KEY_LT64, CT_P_HMAC_KEY_EQ64, CT_P_HMAC_KEY_GT64, CT_P_HMAC_FINAL, CT_P_HMAC_ONESHOT,
    CT_P_HMAC_REINIT_AFTER_FINAL, CT_P_HMAC_REINIT_MID,
    CT_P_HKDF_CROSS_8160, CT_P_HKDF_AFTER_EXHAUST, CT_P_HKDF_ONESHOT_8160, CT_P_HKDF_ONESHOT_REFUSED, CT_P_HKDF_EXPAND,
    CT_P_HKDF_ZERO_LEN, CT_P_HKDF_EMPTY_SALT, CT_P_HKDF_LEFTOVER_SERVE,
    CT_P_PRNG_AUTORESEED_MID, CT_P_PRNG_AUTORESEED_TWICE, CT_P_PRNG_SHORT_ON_AUTO, CT_P_PRNG_CARRY_CHAIN, CT_P_PRNG_GEN,
    CT_P_PRNG_LIMIT_LOWERED_BELOW, CT_P_PRNG_FEED_AT_EDGE, CT_P_PRNG_FEED_RUN, CT_P_PRNG_GEN_TO_EDGE, CT_P_PRNG_OVER_1M,
    CT_P_PRNG_INIT_FAIL, CT_P_PRNG_RESEED_FAIL, CT_P_PRNG_NULLCB, CT_P_PRNG_SYSTEM, CT_P_PRNG_TWIN_FLIP, CT_P_PRNG_TWIN_EQUIV,
    CT_P_TRNG_CALLS, CT_P_TRNG_SUCCESS_AFTER_RETRY, CT_P_TRNG_PERMANENT, CT_P_TRNG_FD_OPENED,
    CT_P_FREE_CHECKED, CT_P_FREE_NEVER_INIT, CT_P_FREE_MID, CT_P_FREE_AFTER_FINAL, CT_P_FREE_TWICE, CT_P_CLEAN_CHECKED,
    CT_P_MIX_SERIAL_COMPARED, CT_P_MIX_REORDER_COMPARED, CT_P_HEAP_CALLS, CT_ASAN_READ_OBS, CT_P_STACK_SCAN,
    CT_COUNT
};
const char *ctr_name(int c);

struct Stats {
    uint64_t c[CT_COUNT];
    uint64_t opk[OP_KIND_COUNT];
    uint64_t site_preempt[SK_COUNT];
    uint64_t max_budget_permille = 0;        // largest share of an op's hang budget any op used (sanity of the budget estimate)
    std::set<uint32_t> states;               // abstract states reached (engine specific encoding)
    std::unordered_set<uint64_t> schedules;  // distinct switch-sequence hashes
    std::unordered_set<uint64_t> shapes;     // distinct non-trivial plan shapes
    Stats() { memset(c, 0, sizeof c); memset(opk, 0, sizeof opk); memset(site_preempt, 0, sizeof site_preempt); }
};

// ---------------------------------------------------------------- world
static const size_t FENCE = 32;
static const int NOBJ = 4;
static const int MAXTASK = 6;

struct Slot {
    uint8_t *base = nullptr;
    size_t size = 0;
    uint8_t *p() const { return base + FENCE; }
};

struct World;
struct TaskState;

enum { ST_DEAD = 0, ST_LIVE = 1, ST_FINAL = 2 };

struct HashObj { Slot m; int st = ST_DEAD; bool ever_init = false, freed = false; std::vector<uint8_t> msg; };
struct HmacObj { Slot m; int st = ST_DEAD; bool ever_init = false; std::vector<uint8_t> key, keybuf; size_t keyoff = 0; bool key_null = false; std::vector<uint8_t> msg; };
struct HkdfObj {
    Slot m; int st = ST_DEAD;
    std::vector<uint8_t> prk, info, stream; // stream = T(1)||T(2)||... computed lazily by the model
    std::vector<uint8_t> lastT;
    unsigned nblocks = 0;
    size_t cursor = 0; bool info_null = false;
};

struct EntropyReq {      // one observed entropy request of a generator
    int k = 0;           // bytes reported delivered (return value of the device / 32 or 0 for the system source)
    uint8_t buf[32];     // what the device wrote (first k bytes valid for the user device; all 32 for the system source)
    bool system = false; // came through the OS stub
    bool sys_ok = false;
    long emitted = -1;   // bytes of the current generate call already written when the request was made (-1: not inside generate)
    uint64_t snap[4]; int nsnap = 0; // hashes of the (up to) four 32-byte blocks just before 'emitted' as they were at that moment
};

struct PrngObj {
    Slot m; int st = ST_DEAD;
    TaskState *owner = nullptr; int index = 0;
    bool system = false;            // uses the system source
    // model (C15)
    uint8_t V[32], C[32]; uint32_t counter = 0, limit = 0;
    bool model_valid = false;
    // observed entropy requests not yet consumed by the model
    std::vector<EntropyReq> reqs;
    // C16 monitor
    uint64_t since = 0, feeds_since = 0; uint64_t L = 1024; bool reconfigured = false;
    // C17: emitted full blocks (hashes) for the not-constant check
    std::vector<uint64_t> blocks;
    // history for twin re-execution
    std::vector<int> hist_ops; // indices into the task's op list since (and including) the last P_INIT
    std::vector<uint8_t> out_log; // concatenated outputs since the last P_INIT
    std::vector<int> status_log;
    // C17 twin bookkeeping
    int flip_op = -1; size_t flip_req = 0; int flip_k = 0; size_t flip_out_off = 0;
    bool ever_system = false; uint64_t os_calls_total = 0;
    // hierarchy: this generator's entropy callback draws from another generator of the same caller
    PrngObj *master = nullptr; bool nested_involved = false;
};

struct OpResult { int rc = 0; uint64_t h = 0; bool done = false; };

struct CurOp {                 // context of the op currently executing in a task
    const Op *op = nullptr; int index = -1;
    PrngObj *gen = nullptr;    // generator being operated on
    uint8_t *genbuf = nullptr; size_t gensize = 0; // output buffer of a running generate
    const uint8_t *sentinel = nullptr;
    size_t dev_req = 0;        // device requests so far in this op
    size_t os_req = 0;         // system-source requests so far in this op
    // OS request state
    bool os_active = false, os_auto = false; size_t os_pos = 0; int os_terminal = -1; // -1 none, 0 success, >0 errno
    int os_calls = 0; int os_extra = 0; long req_emitted = -1; uint64_t req_snap[4]; int req_nsnap = 0;
    uint8_t os_last_ok[32]; bool os_have_ok = false;   // the last 32 bytes the OS delivered in the current request
    uint64_t os_stream_pos = 0, os_delivered = 0;
    int fds_open = 0; int fd_next = 0; int opens = 0, closes = 0; int fds[16]; int nfds = 0; int closed[8]; int nclosed = 0;
    bool in_call = false;      // a library call is on this task's stack
    int entry_errno = 0;       // errno value installed at every library entry of this op (plan data)
    uint64_t op_events = 0, op_budget = ~0ULL; // yield points seen during this op / budget derived from its arguments
};

struct TaskState {
    World *w = nullptr; int id = 0;
    int pid_epoch = 0;          // simulated process identity (changes at F_FORK ops)
    uint64_t now_ns = 0;        // simulated clock of this caller
    uint64_t sleep_calls = 0;
    HashObj h[NOBJ]; HmacObj m[NOBJ]; HkdfObj k[NOBJ]; PrngObj p[NOBJ];
    Slot clean_slot;
    std::vector<OpResult> res;
    CurOp cur;
};

struct Task {
    ucontext_t ctx;
    uint8_t *stack = nullptr; size_t stack_size = 0;
    bool done = false;
    int next_op = 0;
    void *fake_stack = nullptr;
};

struct World {
    const Plan *plan = nullptr;
    int armed = PR_NONE;
    Stats *stats = nullptr;
    int ntasks = 0;
    Task tasks[MAXTASK];
    TaskState *ts[MAXTASK];
    ucontext_t main_ctx;
    int cur = -1;               // running task, -1 = scheduler
    int oracle = 0;             // oracle-mode depth
    bool serial = false;        // serial (reference) execution: no preemption
    std::vector<int> order;     // serial mode: explicit global op order (task<<16|op)
    uint64_t events = 0, event_cap = 0;
    uint64_t ehash = 0;         // event hash (determinism)
    uint64_t shash = 0;         // switch-sequence hash
    uint64_t switches = 0;
    Rng srng;                   // schedule stream (seeded mode)
    size_t spos = 0;            // explicit mode cursor
    std::vector<int> strace;    // decisions actually consumed (becomes the explicit schedule)
    int pending = 0;            // decision handed to the scheduler
    int last_site = 0;          // site kind of the last preemption
    int serial_op = -1;         // serial mode: op index the resumed task must execute
    bool stop = false;
    Violation viol;
    uint64_t world_id = 0;      // distinguishes garbage fill of worlds inside one run
    uint64_t heap_calls = 0;
    uint8_t sentinel[64];
    static const int NFD = 48;
    int8_t fd_owner[NFD];        // simulated descriptor table shared by all callers of this world (-1 = free)
    World() { for (auto &t : ts) t = nullptr; for (auto &f : fd_owner) f = -1; }
};

extern World *g_world;
// AddressSanitizer reports seen so far in this process (san variant; recover mode, so execution continues)
extern volatile uint64_t g_asan_reports, g_asan_writes;
extern char g_asan_first[256];

// core
void world_run(World &w);                       // run all tasks of w.plan under the schedule
void sim_point(int site_kind, int site_id);     // yield point (called from wrappers, device, stubs)
void report(World &w, int prop, const char *cls, const std::string &detail); // check failed
void check_pass(World &w, int prop);            // check evaluated and passed
struct OracleScope { World &w; explicit OracleScope(World &w_) : w(w_) { w.oracle++; } ~OracleScope() { w.oracle--; } };
void abort_run_from_task(World &w);             // leave the current task for good (violation / hang)

// memory
Slot slot_alloc(size_t size);
void slot_free(Slot &s);
void slot_paint(const Slot &s, uint64_t seed, int style);
void slot_fence_arm(const Slot &s);             // write canaries (and poison under ASan)
bool slot_fence_ok(const Slot &s);
struct Buf {                                     // data buffer with alignment offset and tail canary
    uint8_t *base = nullptr, *p = nullptr; size_t len = 0, off = 0;
    Buf() {}
    Buf(size_t len, size_t off);
    ~Buf();
    Buf(const Buf &) = delete; Buf &operator=(const Buf &) = delete;
    bool tail_ok() const;
};
uint64_t hash_bytes(const uint8_t *p, size_t n, uint64_t h = 0x1234567);
std::string hex(const uint8_t *p, size_t n);

// engines
void exec_op(World &w, TaskState &t, const Op &op, int index); // executes one op with its oracles
void world_objects_init(World &w);
void world_objects_fini(World &w);
struct RunResult { Violation viol; uint64_t ehash = 0; uint64_t events = 0; std::vector<int> strace; };
RunResult execute_plan(const Plan &p, int armed, Stats &st);   // full execution incl. engine post-passes
Plan generate_plan(const std::string &engine, int armed, uint64_t seed, bool thorough);
uint64_t baseline_count(const std::string &engine, int armed, bool thorough);
Plan baseline_plan(const std::string &engine, int armed, uint64_t idx);
// progress beacon (shared with the batch parent so that a dead worker can be attributed)
struct Beacon { volatile int64_t run; volatile int32_t op_kind; volatile uint32_t op_flags; volatile uint64_t beat; };
extern Beacon *g_beacon;

// OS / device seams (C++ side)
extern "C" size_t sim_device(void *user_data, unsigned char *buf, size_t size);
void os_begin_request(TaskState &t);
void os_end_request(TaskState &t, int ret, const uint8_t *buf);

// reference models
void model_hmac(World &w, uint8_t out[32], const uint8_t *key, size_t keylen, const uint8_t *msg, size_t len);
void model_hash(World &w, uint8_t out[32], const uint8_t *msg, size_t len);

// variant info (set at start-up)
extern const char *g_variant;    // prod | hook | san | trng-... | cfg-...
extern const char *g_trng_flavor; // getrandom | getentropy | syscall | devurandom
