/* Link-time seams. Compiled as C.
 *
 *  - __wrap_X / __real_X : -Wl,--wrap=X redirects every cross-module call to X made by the
 *    library objects (and by the harness) to these wrappers, which are yield points.
 *  - verif_os_* : the library's TRNG object has its libc entropy calls renamed to these by objcopy.
 *  - verif_lib_* : the library objects have malloc & friends renamed to these by objcopy.
 *  - tinyjambu_verif_point : target of the guarded hook macro (-DTINYJAMBU_VERIF builds only).
 */
#define _GNU_SOURCE
#include <stddef.h>
#include <stdint.h>
#include <stdarg.h>
#include <stdlib.h>
#include <errno.h>
#include <sys/types.h>
#include <sys/syscall.h>

/* from the C++ side */
extern void sim_point_c(int site_kind, int site_id);
extern long sim_os_entropy(void *buf, size_t len, int mode);
extern int sim_os_open(const char *path);
extern int sim_os_close(int fd);
extern int sim_os_dup(int fd, int minfd);
extern int sim_trng_pre(void);
extern void sim_trng_post(int ret, const unsigned char *buf);
extern int sim_heap_call(void);

enum { SK_OP = 0, SK_API, SK_PERM, SK_INTERNAL, SK_DEVICE, SK_OS, SK_HOOK };

#define WEAK __attribute__((weak))

/* The plain yield-point wrappers (permutations, backend helpers, hash/hmac API) live in wrappers_asm.S:
 * register-preserving trampolines that do not depend on the wrapped function's signature, so that a
 * behaviour-preserving change of an internal prototype cannot make the harness call it wrongly. */

/* The seam at the system entropy source (tinyjambu_trng_generate or whatever the tree calls it) is generated per build
 * by tools/build.sh into trngshim.c, because it is an internal name that a refactoring may change. */

/* ---- guarded hook inside leaf loops (only present in -DTINYJAMBU_VERIF objects) */
void tinyjambu_verif_point(int site) { sim_point_c(SK_HOOK, 300 + site); }

/* ---- OS boundary of the TRNG object (objcopy --redefine-sym) */
ssize_t verif_os_getrandom(void *buf, size_t len, unsigned flags) { (void)flags; return (ssize_t)sim_os_entropy(buf, len, 0); }
int verif_os_getentropy(void *buf, size_t len) { return (int)sim_os_entropy(buf, len, 1); }
long verif_os_syscall(long nr, ...) {
    va_list ap; void *buf; size_t len;
    if (nr != SYS_getrandom) { errno = ENOSYS; return -1; }
    va_start(ap, nr);
    buf = va_arg(ap, void *);
    len = va_arg(ap, size_t);
    va_end(ap);
    return sim_os_entropy(buf, len, 0);
}
int verif_os_open(const char *path, int flags, ...) { (void)flags; return sim_os_open(path); }
extern long sim_os_read(int fd, void *buf, size_t n);
ssize_t verif_os_read(int fd, void *buf, size_t n) { return (ssize_t)sim_os_read(fd, buf, n); }
int verif_os_close(int fd) { return sim_os_close(fd); }

/* ---- allocator seam for library objects (objcopy --redefine-sym) */
void *verif_lib_malloc(size_t n) { if (sim_heap_call()) return NULL; return malloc(n); }
void *verif_lib_calloc(size_t a, size_t b) { if (sim_heap_call()) return NULL; return calloc(a, b); }
void *verif_lib_realloc(void *p, size_t n) { if (sim_heap_call()) return NULL; return realloc(p, n); }
void verif_lib_free(void *p) { sim_heap_call(); free(p); }
int verif_lib_posix_memalign(void **p, size_t a, size_t n) { if (sim_heap_call()) return ENOMEM; return posix_memalign(p, a, n); }
void *verif_lib_aligned_alloc(size_t a, size_t n) { if (sim_heap_call()) return NULL; return aligned_alloc(a, n); }
int verif_os_open64(const char *path, int flags, ...) { (void)flags; return sim_os_open(path); }

#include <fcntl.h>
int verif_os_fcntl(int fd, int cmd, ...) {
    va_list ap; long arg;
    va_start(ap, cmd); arg = va_arg(ap, long); va_end(ap);
    if (cmd == F_DUPFD || cmd == F_DUPFD_CLOEXEC) return sim_os_dup(fd, (int)arg);
    return 0; /* F_GETFD / F_SETFD / F_GETFL / F_SETFL on a simulated descriptor: accepted, no effect */
}
int verif_os_dup(int fd) { return sim_os_dup(fd, 0); }
int verif_os_fcntl64(int fd, int cmd, ...) { va_list ap; long arg; va_start(ap, cmd); arg = va_arg(ap, long); va_end(ap); if (cmd == F_DUPFD || cmd == F_DUPFD_CLOEXEC) return sim_os_dup(fd, (int)arg); return 0; }

/* ---- time, sleep and process identity belong to the simulator */
#include <time.h>
#include <sys/time.h>
#include <unistd.h>
extern int sim_os_sleep(uint64_t ns);
extern uint64_t sim_os_now_ns(void);
extern int sim_os_getpid(void);
int verif_os_nanosleep(const struct timespec *req, struct timespec *rem) {
    uint64_t ns = req ? (uint64_t)req->tv_sec * 1000000000ULL + (uint64_t)req->tv_nsec : 0;
    int r = sim_os_sleep(ns);
    if (r != 0 && rem) { rem->tv_sec = (time_t)(ns / 2 / 1000000000ULL); rem->tv_nsec = (long)(ns / 2 % 1000000000ULL); }
    return r;
}
int verif_os_clock_nanosleep(clockid_t c, int flags, const struct timespec *req, struct timespec *rem) {
    (void)c; (void)flags;
    return verif_os_nanosleep(req, rem) == 0 ? 0 : EINTR;
}
int verif_os_usleep(unsigned us) { return sim_os_sleep((uint64_t)us * 1000ULL); }
unsigned verif_os_sleep(unsigned sec) { return sim_os_sleep((uint64_t)sec * 1000000000ULL) == 0 ? 0 : (sec + 1) / 2; }
int verif_os_sched_yield(void) { return sim_os_sleep(0) == 0 ? 0 : 0; }
int verif_os_clock_gettime(clockid_t c, struct timespec *ts) {
    uint64_t n = sim_os_now_ns(); (void)c;
    if (ts) { ts->tv_sec = (time_t)(n / 1000000000ULL); ts->tv_nsec = (long)(n % 1000000000ULL); }
    return 0;
}
int verif_os_gettimeofday(struct timeval *tv, void *tz) {
    uint64_t n = sim_os_now_ns(); (void)tz;
    if (tv) { tv->tv_sec = (time_t)(n / 1000000000ULL); tv->tv_usec = (suseconds_t)(n % 1000000000ULL / 1000); }
    return 0;
}
time_t verif_os_time(time_t *t) { time_t v = (time_t)(sim_os_now_ns() / 1000000000ULL); if (t) *t = v; return v; }
clock_t verif_os_clock(void) { return (clock_t)(sim_os_now_ns() / 1000ULL); }
pid_t verif_os_getpid(void) { return (pid_t)sim_os_getpid(); }

/* ---- _FORTIFY_SOURCE spellings of the same OS calls */
ssize_t verif_os_read_chk(int fd, void *buf, size_t n, size_t buflen) { (void)buflen; return verif_os_read(fd, buf, n); }
int verif_os_open_2(const char *path, int flags) { (void)flags; return sim_os_open(path); }
ssize_t verif_os_getrandom_chk(void *buf, size_t len, unsigned flags, size_t buflen) { (void)buflen; return verif_os_getrandom(buf, len, flags); }
int verif_os_getentropy_chk(void *buf, size_t len, size_t buflen) { (void)buflen; return verif_os_getentropy(buf, len); }
int verif_os_open64_2(const char *path, int flags) { (void)flags; return sim_os_open(path); }
