/* Link-time seams. Compiled as C.
 *
 *  - __wrap_X / __real_X : -Wl,--wrap=X redirects every cross-module call to X made by the
 *    library objects (and by the harness) to these wrappers, which are yield points.
 *  - verif_os_* : the library's TRNG object has its libc entropy calls renamed to these by objcopy.
 *  - verif_lib_* : the library objects have malloc & friends renamed to these by objcopy.
 *  - tinyjambu_verif_point : target of the guarded hook macro (-DTINYJAMBU_VERIF builds only).
 */
#define _GNU_SOURCE
#include <stddef.h>
#include <stdint.h>
#include <stdarg.h>
#include <stdlib.h>
#include <errno.h>
#include <sys/types.h>
#include <sys/syscall.h>

/* from the C++ side */
extern void sim_point_c(int site_kind, int site_id);
extern long sim_os_entropy(void *buf, size_t len, int mode);
extern int sim_os_open(const char *path);
extern int sim_os_close(int fd);
extern int sim_trng_pre(void);
extern void sim_trng_post(int ret, const unsigned char *buf);
extern int sim_heap_call(void);

enum { SK_OP = 0, SK_API, SK_PERM, SK_INTERNAL, SK_DEVICE, SK_OS, SK_HOOK };

#define WEAK __attribute__((weak))

/* ---- permutations */
#define PERM(bits, id) \
    extern void __real_tinyjambu_permutation_##bits(void *state, unsigned rounds) WEAK; \
    void __wrap_tinyjambu_permutation_##bits(void *state, unsigned rounds) { \
        sim_point_c(SK_PERM, id); \
        __real_tinyjambu_permutation_##bits(state, rounds); \
        sim_point_c(SK_PERM, id + 1); \
    }
PERM(128, 100)
PERM(192, 102)
PERM(256, 104)

/* ---- backend helpers */
#define SETUP(bits, id) \
    extern void __real_tinyjambu_setup_##bits(void *s, const unsigned char *n, unsigned char d) WEAK; \
    void __wrap_tinyjambu_setup_##bits(void *s, const unsigned char *n, unsigned char d) { \
        sim_point_c(SK_INTERNAL, id); __real_tinyjambu_setup_##bits(s, n, d); sim_point_c(SK_INTERNAL, id + 1); } \
    extern void __real_tinyjambu_absorb_##bits(void *s, const unsigned char *p, size_t n, unsigned char d, unsigned r) WEAK; \
    void __wrap_tinyjambu_absorb_##bits(void *s, const unsigned char *p, size_t n, unsigned char d, unsigned r) { \
        sim_point_c(SK_INTERNAL, id + 2); __real_tinyjambu_absorb_##bits(s, p, n, d, r); sim_point_c(SK_INTERNAL, id + 3); } \
    extern void __real_tinyjambu_generate_tag_##bits(void *s, unsigned char *t) WEAK; \
    void __wrap_tinyjambu_generate_tag_##bits(void *s, unsigned char *t) { \
        sim_point_c(SK_INTERNAL, id + 4); __real_tinyjambu_generate_tag_##bits(s, t); sim_point_c(SK_INTERNAL, id + 5); }
SETUP(128, 110)
SETUP(192, 120)
SETUP(256, 130)

extern int __real_tinyjambu_aead_check_tag(unsigned char *p, size_t n, const unsigned char *a, const unsigned char *b, size_t s) WEAK;
int __wrap_tinyjambu_aead_check_tag(unsigned char *p, size_t n, const unsigned char *a, const unsigned char *b, size_t s) {
    int r;
    sim_point_c(SK_INTERNAL, 140);
    r = __real_tinyjambu_aead_check_tag(p, n, a, b, s);
    sim_point_c(SK_INTERNAL, 141);
    return r;
}
extern void __real_tinyjambu_clean(void *buf, unsigned size) WEAK;
void __wrap_tinyjambu_clean(void *buf, unsigned size) {
    sim_point_c(SK_INTERNAL, 142);
    __real_tinyjambu_clean(buf, size);
    sim_point_c(SK_INTERNAL, 143);
}
extern int __real_tinyjambu_trng_generate(unsigned char *out) WEAK;
int __wrap_tinyjambu_trng_generate(unsigned char *out) {
    int r, on;
    sim_point_c(SK_INTERNAL, 144);
    on = sim_trng_pre();
    r = __real_tinyjambu_trng_generate(out);
    if (on) sim_trng_post(r, out);
    sim_point_c(SK_INTERNAL, 145);
    return r;
}

/* ---- public hash / hmac API as used across modules (hmac->hash, hkdf/pbkdf2->hmac, prng->hash) */
typedef struct tj_hash_state tj_hash_state;
typedef struct tj_hmac_state tj_hmac_state;
extern void __real_tinyjambu_hash(unsigned char *out, const unsigned char *in, size_t inlen) WEAK;
void __wrap_tinyjambu_hash(unsigned char *out, const unsigned char *in, size_t inlen) {
    sim_point_c(SK_API, 200); __real_tinyjambu_hash(out, in, inlen); sim_point_c(SK_API, 201); }
extern void __real_tinyjambu_hash_init(tj_hash_state *s) WEAK;
void __wrap_tinyjambu_hash_init(tj_hash_state *s) {
    sim_point_c(SK_API, 202); __real_tinyjambu_hash_init(s); sim_point_c(SK_API, 203); }
extern void __real_tinyjambu_hash_reinit(tj_hash_state *s) WEAK;
void __wrap_tinyjambu_hash_reinit(tj_hash_state *s) {
    sim_point_c(SK_API, 204); __real_tinyjambu_hash_reinit(s); sim_point_c(SK_API, 205); }
extern void __real_tinyjambu_hash_free(tj_hash_state *s) WEAK;
void __wrap_tinyjambu_hash_free(tj_hash_state *s) {
    sim_point_c(SK_API, 206); __real_tinyjambu_hash_free(s); sim_point_c(SK_API, 207); }
extern void __real_tinyjambu_hash_update(tj_hash_state *s, const unsigned char *in, size_t n) WEAK;
void __wrap_tinyjambu_hash_update(tj_hash_state *s, const unsigned char *in, size_t n) {
    sim_point_c(SK_API, 208); __real_tinyjambu_hash_update(s, in, n); sim_point_c(SK_API, 209); }
extern void __real_tinyjambu_hash_finalize(tj_hash_state *s, unsigned char *out) WEAK;
void __wrap_tinyjambu_hash_finalize(tj_hash_state *s, unsigned char *out) {
    sim_point_c(SK_API, 210); __real_tinyjambu_hash_finalize(s, out); sim_point_c(SK_API, 211); }

extern void __real_tinyjambu_hmac(unsigned char *out, const unsigned char *k, size_t kl, const unsigned char *in, size_t n) WEAK;
void __wrap_tinyjambu_hmac(unsigned char *out, const unsigned char *k, size_t kl, const unsigned char *in, size_t n) {
    sim_point_c(SK_API, 220); __real_tinyjambu_hmac(out, k, kl, in, n); sim_point_c(SK_API, 221); }
extern void __real_tinyjambu_hmac_init(tj_hmac_state *s, const unsigned char *k, size_t kl) WEAK;
void __wrap_tinyjambu_hmac_init(tj_hmac_state *s, const unsigned char *k, size_t kl) {
    sim_point_c(SK_API, 222); __real_tinyjambu_hmac_init(s, k, kl); sim_point_c(SK_API, 223); }
extern void __real_tinyjambu_hmac_reinit(tj_hmac_state *s, const unsigned char *k, size_t kl) WEAK;
void __wrap_tinyjambu_hmac_reinit(tj_hmac_state *s, const unsigned char *k, size_t kl) {
    sim_point_c(SK_API, 224); __real_tinyjambu_hmac_reinit(s, k, kl); sim_point_c(SK_API, 225); }
extern void __real_tinyjambu_hmac_free(tj_hmac_state *s) WEAK;
void __wrap_tinyjambu_hmac_free(tj_hmac_state *s) {
    sim_point_c(SK_API, 226); __real_tinyjambu_hmac_free(s); sim_point_c(SK_API, 227); }
extern void __real_tinyjambu_hmac_update(tj_hmac_state *s, const unsigned char *in, size_t n) WEAK;
void __wrap_tinyjambu_hmac_update(tj_hmac_state *s, const unsigned char *in, size_t n) {
    sim_point_c(SK_API, 228); __real_tinyjambu_hmac_update(s, in, n); sim_point_c(SK_API, 229); }
extern void __real_tinyjambu_hmac_finalize(tj_hmac_state *s, const unsigned char *k, size_t kl, unsigned char *out) WEAK;
void __wrap_tinyjambu_hmac_finalize(tj_hmac_state *s, const unsigned char *k, size_t kl, unsigned char *out) {
    sim_point_c(SK_API, 230); __real_tinyjambu_hmac_finalize(s, k, kl, out); sim_point_c(SK_API, 231); }

/* ---- guarded hook inside leaf loops (only present in -DTINYJAMBU_VERIF objects) */
void tinyjambu_verif_point(int site) { sim_point_c(SK_HOOK, 300 + site); }

/* ---- OS boundary of the TRNG object (objcopy --redefine-sym) */
ssize_t verif_os_getrandom(void *buf, size_t len, unsigned flags) { (void)flags; return (ssize_t)sim_os_entropy(buf, len, 0); }
int verif_os_getentropy(void *buf, size_t len) { return (int)sim_os_entropy(buf, len, 1); }
long verif_os_syscall(long nr, ...) {
    va_list ap; void *buf; size_t len;
    if (nr != SYS_getrandom) { errno = ENOSYS; return -1; }
    va_start(ap, nr);
    buf = va_arg(ap, void *);
    len = va_arg(ap, size_t);
    va_end(ap);
    return sim_os_entropy(buf, len, 0);
}
int verif_os_open(const char *path, int flags, ...) { (void)flags; return sim_os_open(path); }
ssize_t verif_os_read(int fd, void *buf, size_t n) { (void)fd; return (ssize_t)sim_os_entropy(buf, n, 2); }
int verif_os_close(int fd) { return sim_os_close(fd); }

/* ---- allocator seam for library objects (objcopy --redefine-sym) */
void *verif_lib_malloc(size_t n) { if (sim_heap_call()) return NULL; return malloc(n); }
void *verif_lib_calloc(size_t a, size_t b) { if (sim_heap_call()) return NULL; return calloc(a, b); }
void *verif_lib_realloc(void *p, size_t n) { if (sim_heap_call()) return NULL; return realloc(p, n); }
void verif_lib_free(void *p) { sim_heap_call(); free(p); }
int verif_lib_posix_memalign(void **p, size_t a, size_t n) { if (sim_heap_call()) return ENOMEM; return posix_memalign(p, a, n); }
void *verif_lib_aligned_alloc(size_t a, size_t n) { if (sim_heap_call()) return NULL; return aligned_alloc(a, n); }
int verif_os_open64(const char *path, int flags, ...) { (void)flags; return sim_os_open(path); }
