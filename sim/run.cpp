// Whole-plan execution: the interleaved world plus the engine-specific reference passes.
#include "sim.hpp"
#include <algorithm>
#include <memory>

extern "C" void sim_point_c(int k, int id) { sim_point(k, id); }

namespace {

struct WorldRun {
    std::unique_ptr<World> w;
    WorldRun() : w(new World()) {}
    ~WorldRun() { if (w) world_objects_fini(*w); }
};

void run_world(WorldRun &wr, const Plan &p, int armed, Stats *st, bool serial, const std::vector<int> &order, uint64_t world_id) {
    World &w = *wr.w;
    w.plan = &p; w.armed = armed; w.stats = st; w.serial = serial; w.order = order; w.world_id = world_id;
    world_objects_init(w);
    world_run(w);
}

std::vector<int> order_sequential(const Plan &p) {
    std::vector<int> o;
    for (size_t t = 0; t < p.tasks.size(); t++)
        for (size_t i = 0; i < p.tasks[t].ops.size(); i++) o.push_back((int)((t << 16) | i));
    return o;
}
int op_family(const Op &o) {
    switch (o.kind) {
    case H_INIT: case H_REINIT: case H_UPDATE: case H_FINAL: case H_FREE: case H_DIRTY: return 1;
    case M_INIT: case M_REINIT: case M_UPDATE: case M_FINAL: case M_FREE: case M_DIRTY: return 2;
    case K_EXTRACT: case K_EXPAND: case K_FREE: case K_DIRTY: return 3;
    case P_INIT: case P_GEN: case P_FEED: case P_RESEED: case P_LIMIT: case P_FREE: case P_DIRTY: return 4;
    default: return 0; // stateless: every op is its own group
    }
}
// reverse task order; inside a task, ops regrouped object by object (ops on different objects commute)
std::vector<int> order_regrouped(const Plan &p) {
    std::vector<int> o;
    for (size_t tt = p.tasks.size(); tt-- > 0;) {
        const auto &ops = p.tasks[tt].ops;
        std::vector<std::pair<int, int>> key; // (group key, index)
        for (size_t i = 0; i < ops.size(); i++) {
            int fam = op_family(ops[i]);
            int k = fam ? (fam * 16 + (ops[i].obj % NOBJ)) : (1000 + (int)i);
            key.emplace_back(-k, (int)i);
        }
        std::stable_sort(key.begin(), key.end(), [](const std::pair<int, int> &a, const std::pair<int, int> &b) { return a.first < b.first; });
        for (auto &k : key) o.push_back((int)((tt << 16) | (size_t)k.second));
    }
    return o;
}

void compare_results(World &a, World &b, const Plan &p, const char *cls, const char *what, int ctr) {
    for (size_t t = 0; t < p.tasks.size(); t++) {
        for (size_t i = 0; i < p.tasks[t].ops.size(); i++) {
            const OpResult &ra = a.ts[t]->res[i], &rb = b.ts[t]->res[i];
            if (a.stats) a.stats->c[ctr]++;
            if (ra.done != rb.done || ra.rc != rb.rc || ra.h != rb.h) {
                a.viol.task = (int)t; a.viol.op = (int)i;
                report(a, C19, cls, std::string(op_name(p.tasks[t].ops[i].kind)) + " (task " + std::to_string(t) + ", op " + std::to_string(i) + ") gave a different result " + what);
                a.viol.task = (int)t; a.viol.op = (int)i;
                return;
            }
        }
    }
    check_pass(a, C19);
}

// plan containing only the ops of one generator (task ti, prng object oi)
Plan derive_generator_plan(const Plan &p, size_t ti, int oi, std::vector<int> &index_map) {
    Plan q = p;
    q.tasks.clear();
    TaskPlan tp;
    const auto &ops = p.tasks[ti].ops;
    for (size_t i = 0; i < ops.size(); i++) {
        if (op_family(ops[i]) == 4 && ops[i].obj % NOBJ == oi) { tp.ops.push_back(ops[i]); index_map.push_back((int)i); }
    }
    q.tasks.push_back(tp);
    q.sched_explicit = true; q.sched.clear(); q.switch_permille = 0;
    return q;
}

} // namespace

RunResult execute_plan(const Plan &p, int armed, Stats &st) {
    RunResult rr;
    WorldRun A;
    st.c[CT_RUNS]++;
    if (p.tasks.size() > 1) st.c[CT_MULTITASK_RUNS]++;
    if (p.alloc_fail) st.c[CT_F_ALLOCFAIL_RUNS]++;
    run_world(A, p, armed, &st, false, {}, 0);
    World &a = *A.w;
    st.c[CT_EVENTS] += a.events;
    st.c[CT_SWITCHES] += a.switches;
    if (a.switches) st.schedules.insert(a.shash);
    uint64_t eh = a.ehash;

    if (!a.viol.set && p.engine == "mix" && armed == C19) {
        WorldRun B;
        run_world(B, p, armed, nullptr, true, order_sequential(p), 1);
        eh = mix2(eh, B.w->ehash);
        if (B.w->viol.set) a.viol = B.w->viol;
        else compare_results(a, *B.w, p, "differs-from-serial", "under interleaving than when its task ran alone (fresh memory, no preemption)", CT_P_MIX_SERIAL_COMPARED);
        if (!a.viol.set) {
            WorldRun C;
            run_world(C, p, armed, nullptr, true, order_regrouped(p), 2);
            eh = mix2(eh, C.w->ehash);
            if (C.w->viol.set) a.viol = C.w->viol;
            else compare_results(a, *C.w, p, "history-dependent", "after a different order of unrelated earlier calls", CT_P_MIX_REORDER_COMPARED);
        }
    }

    if (!a.viol.set && armed == C17 && (p.engine == "prng")) {
        for (size_t ti = 0; ti < p.tasks.size() && !a.viol.set; ti++) {
            for (int oi = 0; oi < NOBJ && !a.viol.set; oi++) {
                PrngObj &o = a.ts[ti]->p[oi];
                if (!o.m.base || o.nested_involved) continue;   // twins replay one generator's history alone: not meaningful inside a hierarchy
                // (4) delivered bytes of a short delivery are mixed in
                for (uint64_t which = 0; which < 2 && !a.viol.set; which++)
                if (o.flip_op >= 0 && o.out_log.size() >= o.flip_out_off + 16 && (which == 0 || o.flip_k > 1)) {
                    std::vector<int> map;
                    Plan q = derive_generator_plan(p, ti, oi, map);
                    for (size_t k = 0; k < map.size(); k++) if (map[k] == o.flip_op) q.tasks[0].ops[k].d = ((uint64_t)o.flip_req + 1) | (which << 32);
                    q.arena_seed ^= 0x1111; q.paint_seed ^= 0x2222;
                    WorldRun T;
                    run_world(T, q, PR_NONE, nullptr, true, order_sequential(q), 3);
                    PrngObj &x = T.w->ts[0]->p[oi];
                    eh = mix2(eh, T.w->ehash);
                    st.c[CT_P_PRNG_TWIN_FLIP]++;
                    size_t off = o.flip_out_off, n = std::min<size_t>(32, o.out_log.size() - off);
                    if (x.out_log.size() != o.out_log.size())
                        report(a, C17, "twin-diverged-shape", "generator re-run with one delivered byte flipped produced a different amount of output");
                    else if (memcmp(x.out_log.data() + off, o.out_log.data() + off, n) == 0)
                        report(a, C17, "delivered-bytes-ignored", std::string("flipping the ") + (which ? "last" : "first") + " byte of a short (" + std::to_string(o.flip_k) + "-byte) entropy delivery did not change the following output: delivered bytes are not mixed in");
                    else check_pass(a, C17);
                    if (a.viol.set) { a.viol.task = (int)ti; a.viol.op = o.flip_op; }
                }
                // (5) NULL callback == plain initialisation
                if (o.ever_system && !a.viol.set) {
                    std::vector<int> map;
                    Plan q = derive_generator_plan(p, ti, oi, map);
                    for (auto &op : q.tasks[0].ops)
                        if (op.kind == P_INIT && (op.flags & (F_SYSTEM | F_NULLCB))) op.flags ^= (F_SYSTEM | F_NULLCB);
                    if (plan_avoid_known(q)) continue;   // the twin would step on a listed known finding
                    WorldRun T;
                    run_world(T, q, PR_NONE, nullptr, true, order_sequential(q), 0);
                    PrngObj &x = T.w->ts[0]->p[oi];
                    eh = mix2(eh, T.w->ehash);
                    st.c[CT_P_PRNG_TWIN_EQUIV]++;
                    if (T.w->viol.set && T.w->viol.cls == "hang")
                        report(a, C17, "hang", "twin run with the other initialisation flavour did not terminate");
                    else if (x.status_log != o.status_log)
                        report(a, C17, "nullcb-differs-from-init", "tinyjambu_prng_init_user(NULL callback) and tinyjambu_prng_init report different seeding statuses for identical OS behaviour");
                    else if (x.out_log != o.out_log)
                        report(a, C17, "nullcb-differs-from-init", "tinyjambu_prng_init_user(NULL callback) and tinyjambu_prng_init produce different output for identical OS behaviour");
                    else if (x.os_calls_total != o.os_calls_total)
                        report(a, C17, "nullcb-differs-from-init", "tinyjambu_prng_init_user(NULL callback) and tinyjambu_prng_init make a different number of OS entropy calls");
                    else check_pass(a, C17);
                    if (a.viol.set) a.viol.task = (int)ti;
                }
            }
        }
    }

    rr.viol = a.viol;
    rr.ehash = mix2(eh, a.viol.set ? hash_bytes((const uint8_t *)a.viol.cls.data(), a.viol.cls.size()) : 0);
    rr.events = a.events;
    rr.strace = a.strace;
    // a plan is non-trivial when at least two ops executed and an armed check was evaluated
    return rr;
}
