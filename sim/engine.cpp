// Operation executors, reference models and oracles.
#include "sim.hpp"
#include <cerrno>
#include <algorithm>
#include <sys/mman.h>

static const size_t HKDF_MAX = 8160;

// ---------------------------------------------------------------- helpers
static void ensure(World &w, TaskState &t, Slot &s, size_t size, uint64_t tag) {
    if (s.base) return;
    s = slot_alloc(size);
    slot_paint(s, mix2(w.plan->arena_seed ^ (w.world_id * 0x9E37ULL), ((uint64_t)t.id << 32) | tag), 0);
    slot_fence_arm(s);
}
static void bump(World &w, int c) { if (w.stats) w.stats->c[c]++; }
// The caller moved the object: state objects are plain data (the header documents no restriction), so a struct assignment
// into another variable, a table that was reallocated or a record returned by value carries the object to a new address.
// The old place is overwritten with something else.
static void relocate(World &w, Slot &s, const Op &op) {
    if (!s.base || !(op.flags & F_MOVED)) return;
    Slot n = slot_alloc(s.size);
    slot_paint(n, mix2(op.dseed, 0x4D4F5645), 0);
    slot_fence_arm(n);
    memcpy(n.p(), s.p(), s.size);
    slot_paint(s, mix2(op.dseed, 0x0D1E), (int)((op.dseed >> 17) % 3));
    slot_free(s);
    s = n;
    bump(w, CT_F_MOVED);
}
static void note(World &w, TaskState &t, int index, int rc, const uint8_t *out, size_t n) {
    uint64_t h = hash_bytes(out, n, 0x77 + (uint64_t)rc);
    if ((size_t)index >= t.res.size()) t.res.resize((size_t)index + 1);
    t.res[(size_t)index].rc = rc; t.res[(size_t)index].h = h; t.res[(size_t)index].done = true;
    w.ehash = mix2(w.ehash, h);
}
static void skip(World &w) { if (w.stats) w.stats->c[CT_OPS_SKIPPED]++; }
static void state(World &w, uint32_t s) { if (w.stats) w.stats->states.insert(s); }
// sim/ccaller.c: the same calls made by a C caller that holds its objects behind `void *` handles
extern "C" { void sim_c_hash_free(void *); void sim_c_hmac_free(void *); void sim_c_hkdf_free(void *); void sim_c_prng_free(void *); void sim_c_clean(void *, size_t); extern const int sim_c_handles_opaque; }
static inline bool c_handle_(World &w, const Op &op) { bool y = sim_c_handles_opaque >= 0 && ((op.dseed >> 7) & 1) != 0; if (y && w.stats) w.stats->c[CT_F_C_HANDLE]++; return y; }
#define c_handle(op) c_handle_(w, (op))   // plan data: this call is made by the C caller
static bool all_zero(const uint8_t *p, size_t n) { for (size_t i = 0; i < n; i++) if (p[i]) return false; return true; }
static std::string u2s(uint64_t v) { return std::to_string((unsigned long long)v); }

struct CallScope { // marks "a library call is on this task's stack"; errno at entry is plan data, never process residue
    TaskState &t;
    explicit CallScope(TaskState &t_) : t(t_) { t.cur.in_call = true; errno = t.cur.entry_errno; }
    ~CallScope() { t.cur.in_call = false; }
};

static void fence_check(World &w, const Slot &s, int prop, const char *what) {
    if (!slot_fence_ok(s)) report(w, prop, "fence-broken", std::string("bytes next to the ") + what + " object were modified");
}

static void op_bytes(std::vector<uint8_t> &v, size_t n, const Op &op, uint64_t tag) {
    v.resize(n);
    if (!n) return;
    if (op.flags & F_ZERODATA) { memset(v.data(), 0, n); return; }
    // data style is part of the data seed: mostly uniform bytes, sometimes degenerate patterns
    switch ((op.dseed >> 40) % 32) {
    case 0: memset(v.data(), 0x00, n); break;
    case 1: memset(v.data(), 0xFF, n); break;
    case 2: memset(v.data(), 0x80, n); break;
    case 3: memset(v.data(), 0x01, n); break;
    case 4: fill_bytes(v.data(), n, op.dseed, tag); for (size_t i = 16; i < n; i++) v[i] = v[i % 16]; break; // period-16 data
    case 5: case 6: { // dictionary: constants of the library itself (and complement / byte swap) at 16-byte block starts
        fill_bytes(v.data(), n, op.dseed, tag);
        if (g_dict.empty() || n < 4) break;
        uint64_t h = mix2(op.dseed, tag ^ 0xD1C7);
        for (size_t off = 0; off + 4 <= n; off += 16) {
            h = mix2(h, off);
            if ((h & 3) == 3 && off) continue;
            uint32_t tok = g_dict[(h >> 8) % g_dict.size()];
            if (h & 4) tok = ~tok;
            if (h & 16) tok = __builtin_bswap32(tok);
            size_t at = off + (((h >> 5) & 7) == 7 ? 12 : 0);   // block start, sometimes the last word of the block
            if (at + 4 <= n) memcpy(v.data() + at, &tok, 4);
        }
        break;
    }
    default: fill_bytes(v.data(), n, op.dseed, tag); break;
    }
}
static uint8_t g_dummy[8];

// ---------------------------------------------------------------- reference models
void model_hash(World &w, uint8_t out[32], const uint8_t *msg, size_t len) {
    OracleScope os(w);
    tinyjambu_hash(out, len ? msg : g_dummy, len);
}
void model_hmac(World &w, uint8_t out[32], const uint8_t *key, size_t keylen, const uint8_t *msg, size_t len) {
    // RFC 2104 with B = 64, L = 32, H = TinyJAMBU-Hash (the library's one-shot in oracle mode)
    uint8_t k0[64]; memset(k0, 0, 64);
    if (keylen > 64) model_hash(w, k0, key, keylen);
    else if (keylen) memcpy(k0, key, keylen);
    std::vector<uint8_t> inner(64 + len);
    for (int i = 0; i < 64; i++) inner[(size_t)i] = k0[i] ^ 0x36;
    if (len) memcpy(inner.data() + 64, msg, len);
    uint8_t ih[32];
    model_hash(w, ih, inner.data(), inner.size());
    uint8_t outer[96];
    for (int i = 0; i < 64; i++) outer[i] = k0[i] ^ 0x5C;
    memcpy(outer + 64, ih, 32);
    model_hash(w, out, outer, 96);
}
// RFC 5869 expand: make sure stream covers [0, upto)
static void hkdf_model_need(World &w, HkdfObj &o, size_t upto) {
    if (upto > HKDF_MAX) upto = HKDF_MAX;
    while (o.stream.size() < upto) {
        std::vector<uint8_t> in;
        if (o.nblocks > 0) in.insert(in.end(), o.lastT.begin(), o.lastT.end());
        in.insert(in.end(), o.info.begin(), o.info.end());
        in.push_back((uint8_t)(o.nblocks + 1));
        uint8_t T[32];
        model_hmac(w, T, o.prk.data(), 32, in.data(), in.size());
        o.lastT.assign(T, T + 32);
        o.stream.insert(o.stream.end(), T, T + 32);
        o.nblocks++;
    }
}
static void hkdf_model_extract(World &w, std::vector<uint8_t> &prk, const std::vector<uint8_t> &key, const std::vector<uint8_t> &salt) {
    uint8_t zeros[32]; memset(zeros, 0, 32);
    prk.resize(32);
    if (salt.empty()) model_hmac(w, prk.data(), zeros, 32, key.data(), key.size());
    else model_hmac(w, prk.data(), salt.data(), salt.size(), key.data(), key.size());
}
// Hash_DRBG (SP 800-90A 10.1.1) pieces, over the library's one-shot hash
static void model_df(World &w, uint8_t out[32], int marker /* -1 none */, const uint8_t V[32], const uint8_t *in, size_t inlen) {
    std::vector<uint8_t> m;
    m.push_back(1); m.push_back(0); m.push_back(0); m.push_back(1); m.push_back(0); // counter=1, bits=256 (big endian 32 bit)
    if (marker >= 0) m.push_back((uint8_t)marker);
    m.insert(m.end(), V, V + 32);
    if (inlen) m.insert(m.end(), in, in + inlen);
    model_hash(w, out, m.data(), m.size());
}
static uint32_t model_limit_blocks(uint64_t limit_bytes) {
    if (limit_bytes > 1048576ULL) limit_bytes = 1048576ULL;
    uint64_t b = (limit_bytes + 31) / 32;
    if (!b) b = 1;
    return (uint32_t)b;
}

// ---------------------------------------------------------------- entropy device (user callback)
static long scan_emitted(TaskState &t) {
    CurOp &c = t.cur;
    if (!c.genbuf) return -1;
    // number of bytes of the running generate call already written: whole 32-byte blocks that differ from the sentinel
    size_t e = 0;
    while (e < c.gensize) {
        size_t n = std::min<size_t>(32, c.gensize - e);
        bool same = true;
        for (size_t i = 0; i < n; i++) if (c.genbuf[e + i] != c.sentinel[(e + i) & 63]) { same = false; break; }
        if (same) break;
        e += n;
    }
    return (long)e;
}

static void after_generate(World &w, TaskState &t, PrngObj &o, const uint8_t *outp, size_t size, int model_prop, bool model_on);
// A generator's entropy callback that draws 32 bytes from another generator ("master") of the same caller: a legal way
// to build a hierarchy. The master's call is checked exactly like a top-level generate.
static void nested_draw(World &w, TaskState &t, PrngObj &m, uint8_t out32[32]) {
    CurOp &c = t.cur;
    PrngObj *save_gen = c.gen; uint8_t *save_buf = c.genbuf; size_t save_size = c.gensize; size_t save_req = c.dev_req;
    std::vector<EntropyReq> save_reqs; save_reqs.swap(m.reqs);
    uint8_t tmp[32];
    for (int i = 0; i < 32; i++) tmp[i] = w.sentinel[i & 63];
    const uint8_t *save_sent = c.sentinel;
    c.gen = &m; c.genbuf = tmp; c.gensize = 32; c.sentinel = w.sentinel; c.dev_req = 1000 + save_req * 8;   // the master's own requests take full deliveries
    bump(w, CT_F_NESTED_DRAW);
    tinyjambu_prng_generate((tinyjambu_prng_state_t *)m.m.p(), tmp, 32);
    c.genbuf = nullptr;
    after_generate(w, t, m, tmp, 32, C15, (w.armed == C15 || w.armed == PR_NONE));
    memcpy(out32, tmp, 32);
    m.reqs.swap(save_reqs);
    c.gen = save_gen; c.genbuf = save_buf; c.gensize = save_size; c.dev_req = save_req; c.sentinel = save_sent;
}

// hashes of the whole 32-byte blocks just before offset e of the running generate call's output buffer, as they are now
static int snap_blocks(TaskState &t, long e, uint64_t snap[4]) {
    CurOp &c = t.cur;
    if (!c.genbuf || e < 32) return 0;
    size_t last = (size_t)e / 32; int n = 0;
    for (size_t b = last >= 4 ? last - 4 : 0; b < last && n < 4; b++) snap[n++] = hash_bytes(c.genbuf + 32 * b, 32, 0x5A9 + b);
    return n;
}

extern "C" size_t sim_device(void *user_data, unsigned char *buf, size_t size) {
    PrngObj *o = (PrngObj *)user_data;
    TaskState &t = *o->owner;
    World &w = *t.w;
    if (w.oracle) return 0;
    sim_point(SK_DEVICE, 1);
    CurOp &c = t.cur;
    size_t req = c.dev_req++;
    int k = 32;
    if (c.op && req < c.op->del.size()) k = c.op->del[req];
    if (c.op) for (size_t j = 0; j < c.op->del.size() && j <= req; j++) if (c.op->del[j] < 0) { k = c.op->del[j] == -1 ? 0 : 7; break; }   // a source that keeps failing
    if (k < 0) k = 0;
    if ((size_t)k > size) k = (int)size;
    EntropyReq r;
    r.k = k; r.system = false;
    memset(r.buf, 0, 32);
    uint8_t tmp[32];
    fill_bytes(tmp, 32, c.op ? c.op->dseed : 1, 0xD000 + req);
    if (o->master && o->master != c.gen && o->master->st == ST_LIVE && o->master->m.base && !o->master->system && !o->master->master)
        nested_draw(w, t, *o->master, tmp);   // the entropy comes from another generator of the same caller
    if (c.op && (c.op->d & 0xFFFFFFFFu) == req + 1 && k > 0) tmp[(c.op->d >> 32) ? (size_t)k - 1 : 0] ^= 0x01; // twin run: flip the first or the last delivered byte
    memcpy(r.buf, tmp, (size_t)k);
    memcpy(buf, tmp, (size_t)k);   // exactly k bytes are written
    r.emitted = scan_emitted(t);
    r.nsnap = snap_blocks(t, r.emitted, r.snap);
    if (k == 32) bump(w, CT_F_DELIVERY_FULL); else if (k == 0) bump(w, CT_F_DELIVERY_ZERO); else bump(w, CT_F_DELIVERY_SHORT);
    w.ehash = mix2(w.ehash, 0xDE00 + (uint64_t)k);
    PrngObj *g = c.gen ? c.gen : o;
    if (k >= 1 && k < 32 && g->flip_op < 0 && g->out_log.size() < (1u << 20) - 16384 && r.emitted <= 8192 - 64) {
        g->flip_op = c.index; g->flip_req = req; g->flip_k = k;
        g->flip_out_off = g->out_log.size() + (r.emitted > 0 ? (size_t)r.emitted : 0);
    }
    g->reqs.push_back(r);
    sim_point(SK_DEVICE, 2);
    return (size_t)k;
}

// ---------------------------------------------------------------- OS stub (C++ side)
static bool flavor_is_dev() { return !strcmp(g_trng_flavor, "devurandom"); }

static const std::vector<int> *cur_script(TaskState &t) {
    CurOp &c = t.cur;
    if (!c.op || c.os_req == 0) return nullptr;
    size_t idx = c.os_req - 1;
    if (idx < c.op->os.size()) return &c.op->os[idx];
    return nullptr;
}
void os_begin_request(TaskState &t) {
    CurOp &c = t.cur;
    c.os_active = true; c.os_auto = false; c.os_pos = 0; c.os_terminal = -1; c.os_calls = 0; c.os_extra = 0; c.os_have_ok = false;
    c.os_stream_pos = 0; c.os_delivered = 0; memset(c.os_last_ok, 0, 32);
    c.os_req++;
}
static void os_push_req(TaskState &t, long emitted) {
    CurOp &c = t.cur;
    EntropyReq r;
    r.system = true; r.sys_ok = (c.os_terminal == 0); r.k = r.sys_ok ? 32 : 0;
    memset(r.buf, 0, 32);
    if (r.sys_ok) memcpy(r.buf, c.os_last_ok, 32);
    r.emitted = emitted;
    r.nsnap = c.req_nsnap; memcpy(r.snap, c.req_snap, sizeof r.snap);
    if (c.gen) c.gen->reqs.push_back(r);
}
void os_end_request(TaskState &t, int ret, const uint8_t *buf) {
    (void)ret; (void)buf;
    t.cur.os_active = false;
}
// next applicable element of the current script; returns -1 when the script is exhausted (=> success)
static int os_next_el(TaskState &t, bool for_open) {
    CurOp &c = t.cur;
    const std::vector<int> *s = cur_script(t);
    if (!s) return -1;
    while (c.os_pos < s->size()) {
        int el = (*s)[c.os_pos];
        bool is_open = el >= 1000 && el < 2000, is_short = el >= 2000;
        if (!flavor_is_dev() && (is_open || is_short)) { c.os_pos++; continue; } // not an event of this build: skipped
        if (for_open) { if (is_open) { c.os_pos++; return el; } return -1; }      // open consumes only open-failures
        if (is_open) { c.os_pos++; continue; }                                     // misplaced open failure: skipped
        c.os_pos++;
        return el;
    }
    return -1;
}
static void os_terminal(TaskState &t, int term) {
    CurOp &c = t.cur;
    c.os_terminal = term;
    os_push_req(t, c.req_emitted);
    if (c.os_auto) c.os_active = false;
}
static void os_enter(TaskState &t) {
    CurOp &c = t.cur;
    if (!c.os_active) { os_begin_request(t); c.os_auto = true; }
    if (c.os_calls == 0 && c.os_terminal < 0) { c.req_emitted = scan_emitted(t); c.req_nsnap = snap_blocks(t, c.req_emitted, c.req_snap); }
}
// The entropy call proper. mode: 0 getrandom/syscall (returns len), 1 getentropy (returns 0), 2 read
extern "C" long sim_os_entropy(void *buf, size_t len, int mode) {
    World *wp = g_world;
    if (!wp || wp->cur < 0 || wp->oracle) { errno = ENOSYS; return -1; }
    World &w = *wp;
    TaskState &t = *w.ts[w.cur];
    CurOp &c = t.cur;
    sim_point(SK_OS, 10 + mode);
    os_enter(t);
    c.os_calls++;
    if (c.gen) c.gen->os_calls_total++;
    int el;
    if (c.os_terminal >= 0) { // the library called again after the terminal answer: answer the same way
        c.os_extra++;
        if (c.os_extra > 64) report(w, w.armed, "hang", "system source keeps calling the OS after a terminal answer (more than 64 extra calls)");
        el = c.os_terminal;
    } else el = os_next_el(t, false);
    if (el < 0) el = 0;
    w.ehash = mix2(w.ehash, 0x0500 + (uint64_t)el);
    t.now_ns += w.plan->clock_step_ns;   // simulated time passes with every OS call
    if (w.plan->clock_jump_s && (c.os_calls == 2 || c.os_calls == 5)) {   // the wall clock is stepped (NTP, an operator, a board without RTC)
        t.now_ns += (uint64_t)w.plan->clock_jump_s * 1000000000ULL;
        bump(w, CT_F_CLOCK_JUMP);
    }
    if (el == 0 || el >= 2000) {
        // The OS entropy device is a byte stream (per request): every successful call delivers the next bytes of it. A full
        // answer (el == 0) satisfies the whole request of this call; a short read (el >= 2000, /dev/urandom build only)
        // delivers fewer. Whether the library re-reads all 32 bytes or accumulates the pieces, a correct result is the last
        // 32 bytes delivered in this request.
        size_t want = std::min<size_t>(len, 4096), k = want;
        bool full = (el == 0);
        if (!full) { k = std::min<size_t>((size_t)(el - 2000), want ? want - 1 : 0); if (want <= 1) { k = want; full = true; } }
        std::vector<uint8_t> data(k);
        for (size_t i = 0; i < k; i++) {
            uint64_t pos = c.os_stream_pos + i;
            uint8_t blk[64];
            fill_bytes(blk, 64, c.op ? c.op->dseed : 1, 0x5000 + c.os_req * 4096 + pos / 64);
            data[i] = blk[pos % 64];
        }
        if (full && w.plan->os_echo && k >= 32 && ((c.op ? c.op->dseed : 0) >> 12 & 3) == 0) {
            memcpy(data.data(), buf, k);        // the OS happens to deliver exactly the bytes already in the buffer
            bump(w, CT_F_OS_ECHO);
        }
        if (k) memcpy(buf, data.data(), k);
        c.os_stream_pos += k;
        for (size_t i = 0; i < k; i++) { memmove(c.os_last_ok, c.os_last_ok + 1, 31); c.os_last_ok[31] = data[i]; }
        c.os_delivered += k;
        if (!full) {
            bump(w, CT_F_OS_SHORTREAD);
            sim_point(SK_OS, 21);
            return (long)k;
        }
        c.os_have_ok = c.os_delivered >= 32;
        bump(w, CT_F_OS_OK);
        if (w.plan->os_stale_errno) { errno = (c.op && (c.op->dseed & 8)) ? EAGAIN : EINTR; bump(w, CT_F_OS_STALE_ERRNO); }
        else errno = c.entry_errno;
        bool first = c.os_terminal < 0;
        if (first) os_terminal(t, 0);
        else if (c.gen && !c.gen->reqs.empty()) memcpy(c.gen->reqs.back().buf, c.os_last_ok, 32);
        sim_point(SK_OS, 20);
        return mode == 1 ? 0 : (long)k;
    }
    if (w.plan->os_scribble) { fill_bytes((uint8_t *)buf, std::min<size_t>(len, 32), 0xBADBAD, (uint64_t)c.os_calls); bump(w, CT_F_OS_SCRIBBLE); }
    if (el == EINTR) bump(w, CT_F_OS_EINTR);
    else if (el == EAGAIN) bump(w, CT_F_OS_EAGAIN);
    else { if (c.os_terminal < 0) { bump(w, CT_F_OS_PERM); os_terminal(t, el); } }
    sim_point(SK_OS, 22);
    errno = el;
    return -1;
}
extern "C" int sim_os_open(const char *path) {
    World *wp = g_world;
    if (!wp || wp->cur < 0 || wp->oracle) { errno = ENOSYS; return -1; }
    World &w = *wp;
    TaskState &t = *w.ts[w.cur];
    CurOp &c = t.cur;
    sim_point(SK_OS, 30);
    (void)path;
    os_enter(t);
    int el = c.os_terminal >= 0 ? -1 : os_next_el(t, true);
    if (c.os_terminal > 0 && c.op && ((c.op->dseed >> 9) & 1)) {
        // an open() made after the primary OS call has already failed for good (a fallback path of the tree): it may fail
        // as well, with an errno of its own. The request has failed either way, so no expectation changes.
        static const int O[] = {EMFILE, ENOENT, EACCES, ENFILE};
        bump(w, CT_F_OS_OPENFAIL);
        c.os_extra++;
        errno = O[(c.op->dseed >> 10) & 3];
        return -1;
    }
    if (el >= 1000) {
        bump(w, CT_F_OS_OPENFAIL);
        os_terminal(t, el - 1000);
        errno = el - 1000;
        return -1;
    }
    c.opens++; c.fds_open++;
    bump(w, CT_P_TRNG_FD_OPENED);
    // one descriptor table per world, shared by all simulated callers, lowest free number first (POSIX): a descriptor
    // closed twice may by then belong to somebody else
    int slot = 0;
    while (slot < World::NFD && w.fd_owner[slot] >= 0) slot++;
    if (slot >= World::NFD) { errno = EMFILE; c.opens--; c.fds_open--; return -1; }
    w.fd_owner[slot] = (int8_t)w.cur;
    int fd = w.plan->fd_base + slot;
    if (c.nfds < 16) c.fds[c.nfds++] = fd;
    for (int i = 0; i < c.nclosed; i++) if (c.closed[i] == fd) c.closed[i] = c.closed[--c.nclosed];   // ours again: closing it once more is fine
    return fd;
}
static bool fd_is_open(World &w, int fd) {
    int slot = fd - w.plan->fd_base;
    return slot >= 0 && slot < World::NFD && w.fd_owner[slot] >= 0;
}
extern "C" long sim_os_read(int fd, void *buf, size_t n) {
    World *wp = g_world;
    if (!wp || wp->cur < 0 || wp->oracle) { errno = ENOSYS; return -1; }
    if (!fd_is_open(*wp, fd)) { sim_point(SK_OS, 33); errno = EBADF; return -1; }   // somebody closed it (or it was never opened)
    return sim_os_entropy(buf, n, 2);
}
// dup / fcntl(F_DUPFD*) on a simulated descriptor: a new descriptor that must be closed too
extern "C" int sim_os_dup(int fd, int minfd) {
    World *wp = g_world;
    if (!wp || wp->cur < 0 || wp->oracle) { errno = EBADF; return -1; }
    World &w = *wp;
    TaskState &t = *w.ts[w.cur];
    CurOp &c = t.cur;
    sim_point(SK_OS, 32);
    bool known = false;
    for (int i = 0; i < c.nfds; i++) if (c.fds[i] == fd) known = true;
    if (!known) { errno = EBADF; return -1; }
    int slot = std::max(0, minfd - w.plan->fd_base);
    while (slot < World::NFD && w.fd_owner[slot] >= 0) slot++;
    if (slot >= World::NFD) { errno = EMFILE; return -1; }
    w.fd_owner[slot] = (int8_t)w.cur;
    int nfd = w.plan->fd_base + slot;
    for (int i = 0; i < c.nclosed; i++) if (c.closed[i] == nfd) c.closed[i] = c.closed[--c.nclosed];
    c.opens++; c.fds_open++;
    if (c.nfds < 16) c.fds[c.nfds++] = nfd;
    return nfd;
}
extern "C" int sim_os_close(int fd) {
    World *wp = g_world;
    if (!wp || wp->cur < 0 || wp->oracle) return 0;
    World &w = *wp;
    TaskState &t = *w.ts[w.cur];
    sim_point(SK_OS, 31);
    CurOp &c = t.cur;
    int slot = fd - w.plan->fd_base;
    for (int i = 0; i < c.nclosed; i++)
        if (c.closed[i] == fd) {
            // the same call closes a descriptor number a second time: by now the number may belong to another caller
            report(w, C19, "double-close", "descriptor " + std::to_string(fd - w.plan->fd_base) + " (relative) is closed twice by one library call; between the two closes another caller can be handed the same number");
            break;
        }
    if (slot < 0 || slot >= World::NFD || w.fd_owner[slot] < 0) { errno = EBADF; return -1; }   // not open
    if (c.nclosed < 8) c.closed[c.nclosed++] = fd;
    w.fd_owner[slot] = -1;   // closes whatever is there -- also a descriptor that meanwhile belongs to another caller
    for (int i = 0; i < c.nfds; i++)
        if (c.fds[i] == fd) { c.fds[i] = c.fds[--c.nfds]; c.closes++; c.fds_open--; return 0; }
    return 0;
}
// simulated sleep: no real time passes; may be interrupted (EINTR) when the plan says so
extern "C" int sim_os_sleep(uint64_t ns) {
    World *wp = g_world;
    if (!wp || wp->cur < 0 || wp->oracle) return 0;
    World &w = *wp;
    TaskState &t = *w.ts[w.cur];
    sim_point(SK_OS, 40);
    bump(w, CT_F_SLEEPS);
    t.sleep_calls++;
    if (w.plan->sleep_interrupt && (mix2(t.cur.op ? t.cur.op->dseed : 1, t.sleep_calls) & 3) == 0) {
        t.now_ns += ns / 2;
        bump(w, CT_F_SLEEP_INTERRUPTED);
        errno = EINTR;
        return -1;
    }
    t.now_ns += ns;
    return 0;
}
extern "C" uint64_t sim_os_now_ns(void) {
    World *wp = g_world;
    if (!wp || wp->cur < 0 || wp->oracle) return 1700000000ULL * 1000000000ULL;
    bump(*wp, CT_F_CLOCK_READS);
    return 1700000000ULL * 1000000000ULL + wp->ts[wp->cur]->now_ns;
}
extern "C" int sim_os_getpid(void) {
    World *wp = g_world;
    if (!wp || wp->cur < 0 || wp->oracle) return 4000;
    return 4000 + wp->ts[wp->cur]->pid_epoch;
}

// seam at tinyjambu_trng_generate (from the link-time wrapper)
extern "C" int sim_trng_pre(void) {
    World *wp = g_world;
    if (!wp || wp->cur < 0 || wp->oracle) return 0;
    os_begin_request(*wp->ts[wp->cur]);
    return 1;
}
extern "C" void sim_trng_post(int ret, const unsigned char *buf) {
    World *wp = g_world;
    if (!wp || wp->cur < 0 || wp->oracle) return;
    os_end_request(*wp->ts[wp->cur], ret, buf);
}
// allocator seam: any allocation made by library code
extern "C" int sim_heap_call(void) {
    World *wp = g_world;
    if (!wp) return 0;
    wp->heap_calls++;
    if (wp->stats) wp->stats->c[CT_P_HEAP_CALLS]++;
    return wp->plan && wp->plan->alloc_fail;
}

// ---------------------------------------------------------------- hash family (C11)
static void do_hash(World &w, TaskState &t, const Op &op, int index) {
    HashObj &o = t.h[op.obj % NOBJ];
    relocate(w, o.m, op);
    ensure(w, t, o.m, sizeof(tinyjambu_hash_state_t), 0x100 + (uint64_t)op.obj);
    tinyjambu_hash_state_t *st = (tinyjambu_hash_state_t *)o.m.p();
    const bool on = (w.armed == C11 || w.armed == PR_NONE);
    switch (op.kind) {
    case H_INIT: case H_REINIT: {
        if (o.st == ST_LIVE && !o.msg.empty()) { bump(w, CT_P_HASH_REINIT_MID); bump(w, CT_F_ABANDON); }
        if (o.freed) bump(w, CT_P_HASH_INIT_AFTER_FREE);
        if (o.st == ST_FINAL) bump(w, CT_P_HASH_INIT_AFTER_FINAL);
        { CallScope cs(t); if (op.kind == H_INIT) tinyjambu_hash_init(st); else tinyjambu_hash_reinit(st); }
        o.st = ST_LIVE; o.msg.clear(); o.freed = false; o.ever_init = true;
        fence_check(w, o.m, C11, "hash state");
        note(w, t, index, 0, nullptr, 0);
        break;
    }
    case H_UPDATE: {
        if (o.st != ST_LIVE) { skip(w); return; }
        size_t len = (size_t)op.a;
        Buf in(len, (size_t)(op.b & 7));
        std::vector<uint8_t> data; op_bytes(data, len, op, 1);
        if (len) memcpy(in.p, data.data(), len);
        unsigned posn = (unsigned)(o.msg.size() % 16);
        int path;
        if (len == 0) path = 6;
        else if (posn > 0) { unsigned need = 16 - posn; path = len < need ? 1 : (len == need ? 2 : 3); }
        else path = len < 16 ? 0 : (len % 16 == 0 ? 4 : 5);
        if (on) state(w, 0x110000u | (posn << 4) | (unsigned)path);
        if (path == 3) bump(w, CT_P_HASH_TOPUP_CONTINUE);
        if (path == 2) bump(w, CT_P_HASH_TOPUP_EXACT);
        if (path == 1) bump(w, CT_P_HASH_TOPUP_SHORT);
        if (path == 6) bump(w, (op.flags & F_NULLPTR) ? CT_P_HASH_NULL_UPDATE : CT_P_HASH_EMPTY_UPDATE);
        const unsigned char *ptr = (len == 0 && (op.flags & F_NULLPTR)) ? nullptr : in.p;
        { CallScope cs(t); tinyjambu_hash_update(st, ptr, len); }
        if (len && memcmp(in.p, data.data(), len) != 0) report(w, C11, "input-modified", "hash update wrote into its input buffer");
        if (!in.tail_ok()) report(w, C11, "fence-broken", "hash update wrote outside its input buffer");
        o.msg.insert(o.msg.end(), data.begin(), data.end());
        fence_check(w, o.m, C11, "hash state");
        note(w, t, index, 0, nullptr, 0);
        break;
    }
    case H_FINAL: {
        if (o.st != ST_LIVE) { skip(w); return; }
        Buf out(32, (size_t)(op.b & 7));
        memset(out.p, 0xEE, 32);
        { CallScope cs(t); tinyjambu_hash_finalize(st, out.p); }
        o.st = ST_FINAL;
        if (on) {
            uint8_t exp[32];
            model_hash(w, exp, o.msg.data(), o.msg.size());
            bump(w, CT_P_HASH_FINAL);
            if (memcmp(exp, out.p, 32) != 0)
                report(w, C11, "digest-mismatch", "streamed digest of a " + u2s(o.msg.size()) + "-byte message differs from the one-shot digest: got " + hex(out.p, 32) + " want " + hex(exp, 32));
            else check_pass(w, C11);
        }
        if (!out.tail_ok()) report(w, C11, "fence-broken", "hash finalize wrote outside its 32-byte output");
        fence_check(w, o.m, C11, "hash state");
        note(w, t, index, 0, out.p, 32);
        break;
    }
    case H_FREE: {
        if (!o.ever_init && !o.freed) bump(w, CT_P_FREE_NEVER_INIT);
        else if (o.st == ST_LIVE) bump(w, CT_P_FREE_MID);
        else if (o.st == ST_FINAL) bump(w, CT_P_FREE_AFTER_FINAL);
        { CallScope cs(t); if (c_handle(op)) sim_c_hash_free(st); else tinyjambu_hash_free(st); if (op.flags & F_TWICE) { if (c_handle(op)) sim_c_hash_free(st); else tinyjambu_hash_free(st); bump(w, CT_P_FREE_TWICE); } }
        bump(w, CT_F_FREE_INJECTED);
        if (o.st == ST_LIVE) bump(w, CT_F_ABANDON);
        o.st = ST_DEAD; o.freed = true; o.msg.clear();
        bump(w, CT_P_FREE_CHECKED);
        if (!all_zero(o.m.p(), sizeof(tinyjambu_hash_state_t)))
            report(w, C20, "nonzero-after-free", "tinyjambu_hash_free left non-zero bytes in the " + u2s(sizeof(tinyjambu_hash_state_t)) + "-byte state object");
        else check_pass(w, C20);
        fence_check(w, o.m, C20, "hash state");
        note(w, t, index, 0, nullptr, 0);
        break;
    }
    case H_DIRTY: {
        if (o.st == ST_LIVE) bump(w, CT_F_ABANDON);
        int style = (int)(op.a % 4);
        if (style == 3) { // copy of another object's bytes
            HashObj &src = t.h[(op.obj + 1) % NOBJ];
            if (src.m.base) memcpy(o.m.p(), src.m.p(), o.m.size); else slot_paint(o.m, op.dseed, 0);
        } else slot_paint(o.m, op.dseed, style);
        bump(w, CT_F_DIRTY);
        o.st = ST_DEAD; o.msg.clear();
        note(w, t, index, 0, nullptr, 0);
        break;
    }
    default: break;
    }
}

// ---------------------------------------------------------------- hmac family (C12)
static uint32_t keyclass(size_t n) { return n == 0 ? 0 : n < 64 ? 1 : n == 64 ? 2 : 3; }
static void do_hmac(World &w, TaskState &t, const Op &op, int index) {
    HmacObj &o = t.m[op.obj % NOBJ];
    const bool on = (w.armed == C12 || w.armed == PR_NONE);
    if (op.kind == M_ONESHOT) {
        std::vector<uint8_t> key, msg;
        op_bytes(key, (size_t)op.a, op, 2); op_bytes(msg, (size_t)op.b, op, 3);
        const bool inplace = (op.flags & F_INPLACE) != 0;   // MAC computed over its own output buffer, as PBKDF2-style chains do
        Buf out(inplace ? std::max<size_t>(32, msg.size()) : 32, (size_t)(op.c & 7)); memset(out.p, 0xEE, out.len);
        Buf in(msg.size(), (size_t)((op.c >> 3) & 7));
        if (!msg.empty()) { memcpy(in.p, msg.data(), msg.size()); if (inplace) memcpy(out.p, msg.data(), msg.size()); }
        Buf kb(key.size(), (size_t)((op.c >> 6) & 7));   // key at any alignment
        if (!key.empty()) memcpy(kb.p, key.data(), key.size());
        const unsigned char *kp = (key.empty() && (op.flags & F_NULLPTR)) ? nullptr : kb.p;
        { CallScope cs(t); tinyjambu_hmac(out.p, kp, key.size(), inplace ? out.p : in.p, msg.size()); }
        if (on) {
            uint8_t exp[32];
            model_hmac(w, exp, key.data(), key.size(), msg.data(), msg.size());
            bump(w, CT_P_HMAC_ONESHOT);
            state(w, 0x120000u | (keyclass(key.size()) << 4) | 5u);
            if (memcmp(exp, out.p, 32) != 0)
                report(w, C12, "mac-mismatch", "one-shot HMAC (key " + u2s(key.size()) + " bytes, message " + u2s(msg.size()) + " bytes) differs from RFC 2104: got " + hex(out.p, 32) + " want " + hex(exp, 32));
            else check_pass(w, C12);
        }
        if (!out.tail_ok()) report(w, C12, "fence-broken", "one-shot HMAC wrote outside its output");
        note(w, t, index, 0, out.p, 32);
        return;
    }
    relocate(w, o.m, op);
    ensure(w, t, o.m, sizeof(tinyjambu_hmac_state_t), 0x200 + (uint64_t)op.obj);
    tinyjambu_hmac_state_t *st = (tinyjambu_hmac_state_t *)o.m.p();
    switch (op.kind) {
    case M_INIT: case M_REINIT: {
        uint32_t ev = 0;
        if (o.st == ST_FINAL) { bump(w, CT_P_HMAC_REINIT_AFTER_FINAL); ev = 1; }
        if (o.st == ST_LIVE && !o.msg.empty()) { bump(w, CT_P_HMAC_REINIT_MID); bump(w, CT_F_ABANDON); ev = 2; }
        op_bytes(o.key, (size_t)op.a, op, 2);
        o.key_null = o.key.empty() && (op.flags & F_NULLPTR);
        // the caller keeps its key in one long-lived buffer: a new key of the same length lands at the same address
        if (o.keybuf.size() < o.key.size() + 16) o.keybuf.resize(std::max<size_t>(2200, o.key.size() + 16));
        o.keyoff = (size_t)(op.b & 7);   // the key need not be word aligned
        if (!o.key.empty()) memcpy(o.keybuf.data() + o.keyoff, o.key.data(), o.key.size());
        switch (keyclass(o.key.size())) {
        case 0: bump(w, CT_P_HMAC_KEY_EMPTY); break;
        case 1: bump(w, CT_P_HMAC_KEY_LT64); break;
        case 2: bump(w, CT_P_HMAC_KEY_EQ64); break;
        default: bump(w, CT_P_HMAC_KEY_GT64); break;
        }
        if (on) state(w, 0x120000u | (keyclass(o.key.size()) << 4) | ev | (op.kind == M_REINIT ? 8u : 0u));
        const unsigned char *kp = o.key_null ? nullptr : o.keybuf.data() + o.keyoff;
        { CallScope cs(t); if (op.kind == M_INIT) tinyjambu_hmac_init(st, kp, o.key.size()); else tinyjambu_hmac_reinit(st, kp, o.key.size()); }
        o.st = ST_LIVE; o.msg.clear(); o.ever_init = true;
        fence_check(w, o.m, C12, "HMAC state");
        note(w, t, index, 0, nullptr, 0);
        break;
    }
    case M_UPDATE: {
        if (o.st != ST_LIVE) { skip(w); return; }
        size_t len = (size_t)op.a;
        Buf in(len, (size_t)(op.b & 7));
        std::vector<uint8_t> data; op_bytes(data, len, op, 1);
        if (len) memcpy(in.p, data.data(), len);
        const unsigned char *ptr = (len == 0 && (op.flags & F_NULLPTR)) ? nullptr : in.p;
        { CallScope cs(t); tinyjambu_hmac_update(st, ptr, len); }
        o.msg.insert(o.msg.end(), data.begin(), data.end());
        fence_check(w, o.m, C12, "HMAC state");
        note(w, t, index, 0, nullptr, 0);
        break;
    }
    case M_FINAL: {
        if (o.st != ST_LIVE) { skip(w); return; }
        Buf out(32, (size_t)(op.b & 7)); memset(out.p, 0xEE, 32);
        Buf kcopy(o.key.size(), (size_t)((op.b >> 3) & 7));   // the same key, supplied again from a different address
        if (!o.key.empty()) memcpy(kcopy.p, o.key.data(), o.key.size());
        const unsigned char *kp = o.key_null ? nullptr : ((op.b & 64) ? kcopy.p : o.keybuf.data() + o.keyoff);   // same buffer or a copy elsewhere
        { CallScope cs(t); tinyjambu_hmac_finalize(st, kp, o.key.size(), out.p); }
        o.st = ST_FINAL;
        if (on) {
            uint8_t exp[32];
            model_hmac(w, exp, o.key.data(), o.key.size(), o.msg.data(), o.msg.size());
            bump(w, CT_P_HMAC_FINAL);
            state(w, 0x120000u | (keyclass(o.key.size()) << 4) | 4u);
            if (memcmp(exp, out.p, 32) != 0)
                report(w, C12, "mac-mismatch", "streamed HMAC (key " + u2s(o.key.size()) + " bytes, message " + u2s(o.msg.size()) + " bytes) differs from RFC 2104: got " + hex(out.p, 32) + " want " + hex(exp, 32));
            else check_pass(w, C12);
        }
        if (!out.tail_ok()) report(w, C12, "fence-broken", "HMAC finalize wrote outside its output");
        fence_check(w, o.m, C12, "HMAC state");
        note(w, t, index, 0, out.p, 32);
        break;
    }
    case M_FREE: {
        if (!o.ever_init) bump(w, CT_P_FREE_NEVER_INIT);
        else if (o.st == ST_LIVE) bump(w, CT_P_FREE_MID);
        else if (o.st == ST_FINAL) bump(w, CT_P_FREE_AFTER_FINAL);
        { CallScope cs(t); if (c_handle(op)) sim_c_hmac_free(st); else tinyjambu_hmac_free(st); if (op.flags & F_TWICE) { if (c_handle(op)) sim_c_hmac_free(st); else tinyjambu_hmac_free(st); bump(w, CT_P_FREE_TWICE); } }
        bump(w, CT_F_FREE_INJECTED);
        o.st = ST_DEAD; o.msg.clear();
        bump(w, CT_P_FREE_CHECKED);
        if (!all_zero(o.m.p(), sizeof(tinyjambu_hmac_state_t)))
            report(w, C20, "nonzero-after-free", "tinyjambu_hmac_free left non-zero bytes in the " + u2s(sizeof(tinyjambu_hmac_state_t)) + "-byte state object");
        else check_pass(w, C20);
        fence_check(w, o.m, C20, "HMAC state");
        note(w, t, index, 0, nullptr, 0);
        break;
    }
    case M_DIRTY: {
        if (o.st == ST_LIVE) bump(w, CT_F_ABANDON);
        slot_paint(o.m, op.dseed, (int)(op.a % 3));
        bump(w, CT_F_DIRTY);
        o.st = ST_DEAD; o.msg.clear();
        note(w, t, index, 0, nullptr, 0);
        break;
    }
    default: break;
    }
}

// ---------------------------------------------------------------- hkdf family (C13)
static void do_hkdf(World &w, TaskState &t, const Op &op, int index) {
    HkdfObj &o = t.k[op.obj % NOBJ];
    const bool on = (w.armed == C13 || w.armed == PR_NONE);
    if (op.kind == K_ONESHOT) {
        size_t outlen = (size_t)op.a;
        std::vector<uint8_t> key, salt, info;
        op_bytes(key, (size_t)op.b, op, 4); op_bytes(salt, (size_t)op.c, op, 5); op_bytes(info, (size_t)op.d, op, 6);
        Buf out(outlen, 0);
        std::vector<uint8_t> pattern(outlen);
        if (outlen) { fill_bytes(pattern.data(), outlen, op.dseed, 7); memcpy(out.p, pattern.data(), outlen); }
        const unsigned char *sp = (salt.empty() && (op.flags & F_NULLPTR)) ? nullptr : (salt.empty() ? g_dummy : salt.data());
        int rc;
        { CallScope cs(t); rc = tinyjambu_hkdf(out.p, outlen, key.empty() ? g_dummy : key.data(), key.size(), sp, salt.size(), info.empty() ? g_dummy : info.data(), info.size()); }
        if (on) {
            if (salt.empty()) bump(w, CT_P_HKDF_EMPTY_SALT);
            if (outlen > HKDF_MAX) {
                bump(w, CT_P_HKDF_ONESHOT_REFUSED);
                state(w, 0x130000u | 0x8000u | 1u);
                if (rc != -1) report(w, C13, "refusal-missing", "one-shot HKDF for " + u2s(outlen) + " bytes (> 8160) returned " + std::to_string(rc) + " instead of -1");
                else if (outlen && memcmp(out.p, pattern.data(), outlen) != 0) report(w, C13, "refused-call-wrote", "one-shot HKDF refused " + u2s(outlen) + " bytes but wrote into the output buffer");
                else check_pass(w, C13);
            } else {
                HkdfObj tmp;
                hkdf_model_extract(w, tmp.prk, key, salt);
                tmp.info = info;
                hkdf_model_need(w, tmp, outlen);
                if (outlen == HKDF_MAX) bump(w, CT_P_HKDF_ONESHOT_8160);
                state(w, 0x130000u | 0x8000u | (outlen == HKDF_MAX ? 2u : outlen == 0 ? 3u : 4u));
                if (rc != 0) report(w, C13, "wrong-return", "one-shot HKDF for " + u2s(outlen) + " bytes returned " + std::to_string(rc));
                else if (outlen && memcmp(out.p, tmp.stream.data(), outlen) != 0) report(w, C13, "okm-mismatch", "one-shot HKDF output (" + u2s(outlen) + " bytes) differs from RFC 5869");
                else check_pass(w, C13);
            }
        }
        if (!out.tail_ok()) report(w, C13, "fence-broken", "one-shot HKDF wrote outside its output");
        note(w, t, index, rc, out.p, outlen);
        return;
    }
    relocate(w, o.m, op);
    ensure(w, t, o.m, sizeof(tinyjambu_hkdf_state_t), 0x300 + (uint64_t)op.obj);
    tinyjambu_hkdf_state_t *st = (tinyjambu_hkdf_state_t *)o.m.p();
    switch (op.kind) {
    case K_EXTRACT: {
        std::vector<uint8_t> key, salt;
        op_bytes(key, (size_t)op.a, op, 4); op_bytes(salt, (size_t)op.b, op, 5); op_bytes(o.info, (size_t)op.c, op, 6);
        o.info_null = o.info.empty() && (op.flags & F_NOCUSTOM);
        const unsigned char *sp = (salt.empty() && (op.flags & F_NULLPTR)) ? nullptr : (salt.empty() ? g_dummy : salt.data());
        if (o.st == ST_LIVE) bump(w, CT_F_ABANDON);
        for (uint64_t rep = 0; rep <= op.d && !w.stop; rep++) // a run of extracts (any per-process counter of small width wraps)
        { CallScope cs(t); tinyjambu_hkdf_extract(st, key.empty() ? g_dummy : key.data(), key.size(), sp, salt.size()); }
        o.st = ST_LIVE; o.cursor = 0; o.stream.clear(); o.lastT.clear(); o.nblocks = 0;
        if (on) { hkdf_model_extract(w, o.prk, key, salt); if (salt.empty()) bump(w, CT_P_HKDF_EMPTY_SALT); }
        fence_check(w, o.m, C13, "HKDF state");
        note(w, t, index, 0, nullptr, 0);
        break;
    }
    case K_EXPAND: {
        if (o.st != ST_LIVE) { skip(w); return; }
        size_t len = (size_t)op.a;
        Buf out(len, (size_t)(op.b & 7));
        if (len) fill_bytes(out.p, len, op.dseed, 7);
        Buf icopy(o.info.size(), (size_t)((op.b >> 3) & 7));   // the same info bytes, from a fresh buffer on every call
        if (!o.info.empty()) memcpy(icopy.p, o.info.data(), o.info.size());
        const unsigned char *ip = o.info_null ? nullptr : icopy.p;
        // sometimes label and key material are neighbours in one record: info immediately followed by the output buffer
        Buf packed(((op.b >> 6) & 3) == 3 && !o.info_null ? o.info.size() + len : 0, 0);
        uint8_t *outp = out.p;
        if (packed.len) { memcpy(packed.p, o.info.data(), o.info.size()); ip = packed.p; outp = packed.p + o.info.size(); if (len) memcpy(outp, out.p, len); }
        int rc;
        { CallScope cs(t); rc = tinyjambu_hkdf_expand(st, ip, o.info.size(), outp, len); }
        if (packed.len) {
            if (!o.info.empty() && memcmp(packed.p, o.info.data(), o.info.size()) != 0) report(w, C13, "fence-broken", "HKDF expand modified the info bytes that sit right in front of its output buffer");
            if (len) memcpy(out.p, outp, len);
            if (!packed.tail_ok()) report(w, C13, "fence-broken", "HKDF expand wrote outside its output");
        }
        size_t p = o.cursor;
        size_t avail = std::min(len, HKDF_MAX - p);
        if (on) {
            hkdf_model_need(w, o, p + avail);
            bump(w, CT_P_HKDF_EXPAND);
            size_t left = (p % 32) ? 32 - (p % 32) : 0;
            unsigned rq = len == 0 ? 0 : (p >= HKDF_MAX ? 5 : (p + len > HKDF_MAX ? 4 : (left && len < left ? 1 : (left && len == left ? 2 : 3))));
            unsigned nb = (unsigned)((p + 31) / 32);
            unsigned cc = nb == 0 ? 0 : nb < 254 ? 1 : nb == 254 ? 2 : 3;
            state(w, 0x130000u | ((unsigned)(p % 32) << 6) | (cc << 4) | rq);
            if (len == 0) bump(w, CT_P_HKDF_ZERO_LEN);
            if (left && len) bump(w, CT_P_HKDF_LEFTOVER_SERVE);
            if (p < HKDF_MAX && p + len > HKDF_MAX) bump(w, CT_P_HKDF_CROSS_8160);
            if (p >= HKDF_MAX && len) bump(w, CT_P_HKDF_AFTER_EXHAUST);
            int want = (p + len <= HKDF_MAX) ? 0 : -1;
            if (len == 0 && p >= HKDF_MAX && rc == -1) want = -1; // nothing requested from an exhausted object: either answer is within the statement
            if (avail && memcmp(out.p, o.stream.data() + p, avail) != 0)
                report(w, C13, "okm-mismatch", "expand of " + u2s(len) + " bytes at stream offset " + u2s(p) + " differs from RFC 5869");
            else if (!all_zero(out.p + avail, len - avail))
                report(w, C13, "beyond-8160-nonzero", "expand of " + u2s(len) + " bytes at stream offset " + u2s(p) + " left non-zero bytes past byte 8160");
            else if (rc != want)
                report(w, C13, "wrong-return", "expand of " + u2s(len) + " bytes at stream offset " + u2s(p) + " returned " + std::to_string(rc) + ", expected " + std::to_string(want));
            else check_pass(w, C13);
        }
        o.cursor = p + avail;
        if (!out.tail_ok()) report(w, C13, "fence-broken", "HKDF expand wrote outside its output");
        fence_check(w, o.m, C13, "HKDF state");
        note(w, t, index, rc, out.p, len);
        break;
    }
    case K_FREE: {
        if (o.st == ST_LIVE) bump(w, CT_P_FREE_MID);
        else if (!o.m.base) bump(w, CT_P_FREE_NEVER_INIT);
        { CallScope cs(t); if (c_handle(op)) sim_c_hkdf_free(st); else tinyjambu_hkdf_free(st); if (op.flags & F_TWICE) { if (c_handle(op)) sim_c_hkdf_free(st); else tinyjambu_hkdf_free(st); bump(w, CT_P_FREE_TWICE); } }
        bump(w, CT_F_FREE_INJECTED);
        o.st = ST_DEAD;
        bump(w, CT_P_FREE_CHECKED);
        if (!all_zero(o.m.p(), sizeof(tinyjambu_hkdf_state_t)))
            report(w, C20, "nonzero-after-free", "tinyjambu_hkdf_free left non-zero bytes in the " + u2s(sizeof(tinyjambu_hkdf_state_t)) + "-byte state object");
        else check_pass(w, C20);
        fence_check(w, o.m, C20, "HKDF state");
        note(w, t, index, 0, nullptr, 0);
        break;
    }
    case K_DIRTY: {
        if (o.st == ST_LIVE) bump(w, CT_F_ABANDON);
        slot_paint(o.m, op.dseed, (int)(op.a % 3));
        bump(w, CT_F_DIRTY);
        o.st = ST_DEAD;
        note(w, t, index, 0, nullptr, 0);
        break;
    }
    default: break;
    }
}

extern "C" void sim_clean_dirty(void *p, uint64_t size_with_dirty_upper_half);   // wrappers_asm.S: tail-jumps to tinyjambu_clean
// ---------------------------------------------------------------- clean primitive (C20)
// Four pages around a 4 GiB address boundary (mapped once per process and caller; not under ASan, whose shadow owns the layout)
static uint8_t *boundary_page(int task) {
#ifndef SIM_ASAN
    // one boundary per simulated caller: callers work on disjoint memory
    static uint8_t *b[MAXTASK]; static bool tried[MAXTASK];
    if (task < 0 || task >= MAXTASK) return nullptr;
    if (!tried[task]) {
        tried[task] = true;
        for (uint64_t k : {0x7ULL + 2 * (uint64_t)task, 0x110ULL + (uint64_t)task, 0x25ULL + 3 * (uint64_t)task}) {
            void *want = (void *)((k << 32) - 8192);
            void *m = mmap(want, 16384, PROT_READ | PROT_WRITE, MAP_PRIVATE | MAP_ANONYMOUS | MAP_FIXED_NOREPLACE, -1, 0);
            if (m == want) { b[task] = (uint8_t *)m + 8192; break; }
            if (m != MAP_FAILED) munmap(m, 16384);
        }
    }
    return b[task]; // address of the boundary itself
#else
    (void)task;
    return nullptr;
#endif
}
static void do_clean_boundary(World &w, TaskState &t, const Op &op, int index) {
    uint8_t *B = boundary_page(t.id);
    if (!B) { skip(w); return; }
    bump(w, CT_F_BOUNDARY);
    size_t mode = (size_t)(op.c % 5);
    static const size_t OBJ[5] = {0, sizeof(tinyjambu_hash_state_t), sizeof(tinyjambu_hmac_state_t), sizeof(tinyjambu_hkdf_state_t), sizeof(tinyjambu_prng_state_t)};
    size_t size = mode ? OBJ[mode] : std::min<size_t>((size_t)op.b, 4000);
    size_t before = mode ? (size_t)((op.a % 3) * 8 + (op.a % 3 == 2 ? size - 16 : 0)) : (size_t)(op.a % 3 == 0 ? size : op.a % 3 == 1 ? size / 2 : 0);
    if (mode) before = (op.a % 3 == 0) ? size : (op.a % 3 == 1 ? (size / 16) * 8 : 0);   // ends at / straddles / starts at the boundary (8-aligned)
    uint8_t *p = B - before;
    uint8_t *lo = B - 8192, *hi = B + 8192;
    for (uint8_t *q = lo; q < hi; q++) *q = (uint8_t)(0x5B + ((q - lo) * 7 % 200));   // non-zero everywhere
    std::vector<uint8_t> snap(lo, hi);
    {
        CallScope cs(t);
        switch (mode) {
        case 0: tinyjambu_clean(p, (unsigned)size); break;
        case 1: if (c_handle(op)) sim_c_hash_free(p); else tinyjambu_hash_free((tinyjambu_hash_state_t *)p); break;
        case 2: if (c_handle(op)) sim_c_hmac_free(p); else tinyjambu_hmac_free((tinyjambu_hmac_state_t *)p); break;
        case 3: if (c_handle(op)) sim_c_hkdf_free(p); else tinyjambu_hkdf_free((tinyjambu_hkdf_state_t *)p); break;
        default: if (c_handle(op)) sim_c_prng_free(p); else tinyjambu_prng_free((tinyjambu_prng_state_t *)p); break;
        }
    }
    bump(w, mode ? CT_P_FREE_CHECKED : CT_P_CLEAN_CHECKED);
    bool ok = true; std::string why;
    for (uint8_t *q = lo; q < hi && ok; q++) {
        bool inside = q >= p && q < p + size;
        if (inside && *q != 0) { ok = false; why = "byte " + u2s((uint64_t)(q - p)) + " of " + u2s(size) + " not zeroed"; }
        if (!inside && *q != snap[(size_t)(q - lo)]) { ok = false; why = "byte outside the object modified"; }
    }
    static const char *FN[5] = {"tinyjambu_clean", "tinyjambu_hash_free", "tinyjambu_hmac_free", "tinyjambu_hkdf_free", "tinyjambu_prng_free"};
    if (!ok) report(w, C20, mode ? "nonzero-after-free" : "clean-wrong-range", std::string(FN[mode]) + " on an object that " + (before == size ? "ends at" : before ? "straddles" : "starts at") + " a 4 GiB address boundary: " + why);
    else check_pass(w, C20);
    note(w, t, index, 0, nullptr, 0);
}

static void do_clean(World &w, TaskState &t, const Op &op, int index) {
    if (op.flags & F_BOUNDARY) { do_clean_boundary(w, t, op, index); return; }
    const size_t SZ = 8192 + 64;
    ensure(w, t, t.clean_slot, SZ, 0x400);
    size_t off = (size_t)(op.a % 64), size = (size_t)op.b;
    if (off + size > SZ) size = SZ - off;
    std::vector<uint8_t> before(SZ);
    fill_bytes(before.data(), SZ, op.dseed | 1, 9);
    for (auto &b : before) if (!b) b = 0x5A; // every byte non-zero so that zeroing is observable
    memcpy(t.clean_slot.p(), before.data(), SZ);
    {
        CallScope cs(t);
#if defined(__x86_64__)
        if (op.d & 1) {
            // the size parameter is an `unsigned`: the ABI leaves the upper half of its register unspecified (a caller that
            // narrows a 64-bit value and tail-calls leaves the old bits there). Call with that half dirty.
            sim_clean_dirty(t.clean_slot.p() + off, (0xA5A5A5A5ULL << 32) | (uint64_t)(unsigned)size);
        } else
#endif
        if (c_handle(op)) sim_c_clean(t.clean_slot.p() + off, size); else
        tinyjambu_clean(t.clean_slot.p() + off, (unsigned)size);
    }
    bump(w, CT_P_CLEAN_CHECKED);
    if (w.armed == C20 || w.armed == PR_NONE) state(w, 0x200000u | ((unsigned)(off & 15) << 12) | (unsigned)std::min<size_t>(size, 4095));
    const uint8_t *p = t.clean_slot.p();
    bool ok = true; std::string why;
    for (size_t i = 0; i < SZ && ok; i++) {
        bool inside = i >= off && i < off + size;
        if (inside && p[i] != 0) { ok = false; why = "byte " + u2s(i - off) + " of " + u2s(size) + " not zeroed (offset " + u2s(off) + ")"; }
        if (!inside && p[i] != before[i]) { ok = false; why = "byte outside the requested range modified (offset " + u2s(off) + ", size " + u2s(size) + ", at " + u2s(i) + ")"; }
    }
    if (!ok) report(w, C20, "clean-wrong-range", "tinyjambu_clean: " + why); else check_pass(w, C20);
    fence_check(w, t.clean_slot, C20, "clean buffer");
    note(w, t, index, 0, nullptr, 0);
}

// ---------------------------------------------------------------- prng family (C15, C16, C17, C18)
static void prng_model_seed(World &w, PrngObj &o, uint8_t entropy[32], const uint8_t *custom, size_t clen) {
    model_df(w, o.V, -1, entropy, custom, clen);
    model_df(w, o.C, 0, o.V, nullptr, 0);
    o.counter = 1; o.limit = 32; o.model_valid = true;
}
static bool take_req(PrngObj &o, EntropyReq &r) {
    if (o.reqs.empty()) return false;
    r = o.reqs.front(); o.reqs.erase(o.reqs.begin());
    return true;
}
static void prng_model_reseed(World &w, PrngObj &o, const EntropyReq &r) {
    uint8_t e[32];
    memcpy(e, o.V, 32);                       // buffer holds the old V ...
    if (r.system) memcpy(e, r.buf, 32);       // ... the system source always defines all 32 bytes
    else memcpy(e, r.buf, (size_t)r.k);       // ... the device overwrote the first k bytes
    uint8_t nv[32];
    model_df(w, nv, 1, o.V, e, 32);
    memcpy(o.V, nv, 32);
    model_df(w, o.C, 0, o.V, nullptr, 0);
    o.counter = 1;
}
static void prng_status_check(World &w, PrngObj &o, int rc, bool any_req, const EntropyReq &r, const char *what) {
    bool full = any_req && (r.system ? r.sys_ok : r.k == 32);
    if ((rc != 0) != full)
        report(w, o.system ? ((w.armed == C18) ? C18 : C17) : C17, "status-lie",
               std::string(what) + " returned " + std::to_string(rc) + " although the entropy source " + (any_req ? (full ? "delivered a full 32-byte seed" : "delivered " + std::to_string(r.k) + " bytes") : "was not asked"));
    else check_pass(w, C17);
}

// Everything that is checked after one tinyjambu_prng_generate() call on generator o has returned: the C16 budget monitor,
// the C15/C18 model comparison, the C17 not-constant check, the logs. Shared by P_GEN and by nested draws (a generator
// whose entropy callback draws from another generator of the same caller).
static void after_generate(World &w, TaskState &t, PrngObj &o, const uint8_t *outp, size_t size, int model_prop, bool model_on) {
    (void)t;
    bump(w, CT_P_PRNG_GEN);
    // Was "bytes already written when the entropy source was asked" a faithful measure of bytes emitted? Only if what
    // was in the buffer then is what the call finally returned there (a library that zero-fills the buffer first, or uses
    // it as scratch, writes bytes that are not output). If not, fall back to what is certain from totals alone.
    bool precise = true;
    for (auto &r : o.reqs) {
        if (r.emitted < 0) continue;
        size_t last = (size_t)r.emitted / 32; int n = 0;
        for (size_t b = last >= 4 ? last - 4 : 0; b < last && n < r.nsnap; b++, n++)
            if (32 * b + 32 <= size && hash_bytes(outp + 32 * b, 32, 0x5A9 + b) != r.snap[n]) precise = false;
        if ((size_t)r.emitted >= size) precise = false;   // a request always precedes a block: a buffer that is already all written is not being filled progressively
    }
    if (!precise) {
        size_t nreq = o.reqs.size();
        uint64_t used = o.since + 32 * o.feeds_since;
        bool bad = false; std::string why;
        if (nreq == 0) { o.since += size; if (size && o.since + 32 * o.feeds_since > o.L) { bad = true; why = u2s(o.since) + " bytes emitted since the last entropy request with limit " + u2s(o.L); } }
        else {
            uint64_t room0 = o.L > used ? o.L - used : 0;
            uint64_t maxtotal = room0 + (uint64_t)nreq * o.L;          // first segment, nreq-1 full segments, last segment
            if (size > maxtotal) { bad = true; why = u2s(size) + " bytes returned by one call with " + u2s(nreq) + " entropy requests: more than " + u2s(maxtotal) + " cannot be emitted within limit " + u2s(o.L); }
            uint64_t before_last = room0 + (uint64_t)(nreq - 1) * o.L;
            o.since = size > before_last ? size - before_last : 0;  // least the last segment can hold
            o.feeds_since = 0;
        }
        if (bad) report(w, C16, "budget-exceeded", why); else check_pass(w, C16);
        for (auto &r : o.reqs) r.emitted = -1;                       // positions are not known: the model does not compare them
    } else
    // --- C16 monitor (API-visible facts only)
    {
        size_t prev = 0; bool bad = false; std::string why;
        size_t nreq = 0;
        for (auto &r : o.reqs) {
            size_t e = r.emitted < 0 ? prev : (size_t)r.emitted;
            if (e < prev) e = prev;
            size_t d = e - prev;
            if (d > 0) {
                o.since += d;
                if (o.since + 32 * o.feeds_since > o.L && !bad) { bad = true; why = u2s(o.since) + " bytes emitted (+" + u2s(o.feeds_since) + " feeds) before an entropy request with limit " + u2s(o.L); }
            }
            if (nreq > 0 && d > 0) bump(w, CT_P_PRNG_AUTORESEED_MID);
            if (nreq == 0 && e > 0) bump(w, CT_P_PRNG_AUTORESEED_MID);
            o.since = 0; o.feeds_since = 0; prev = e; nreq++;
            if (r.k != 32 && !r.system) bump(w, CT_P_PRNG_SHORT_ON_AUTO);
            if (r.k != 32) bump(w, CT_P_PRNG_RESEED_FAIL);
        }
        if (nreq >= 2) bump(w, CT_P_PRNG_AUTORESEED_TWICE);
        size_t tail = size - std::min(prev, size);
        if (tail > 0) {
            o.since += tail;
            if (o.since + 32 * o.feeds_since > o.L && !bad) { bad = true; why = u2s(o.since) + " bytes emitted (+" + u2s(o.feeds_since) + " feeds) since the last entropy request with limit " + u2s(o.L); }
        }
        if (o.since == o.L && size) bump(w, CT_P_PRNG_GEN_TO_EDGE);
        if (o.since > 1048576 - 64 && size) bump(w, CT_P_PRNG_OVER_1M);
        if (w.armed == C16 || w.armed == PR_NONE) {
            uint32_t lc = o.L == 32 ? 0 : o.L < 1024 ? 1 : o.L == 1024 ? 2 : o.L < 1048576 ? 3 : 4;
            uint32_t sc = size == 0 ? 0 : size < 32 ? 1 : size == 32 ? 2 : size <= o.L ? 3 : 4;
            state(w, 0x160000u | (lc << 8) | (sc << 4) | (uint32_t)std::min<size_t>(nreq, 3) | (o.feeds_since ? 0x1000u : 0u));
        }
        if (bad) report(w, C16, "budget-exceeded", why);
        else check_pass(w, C16);
    }
    // --- C15 / C18 model
    if (model_on && o.model_valid) {
        std::vector<uint8_t> exp(size);
        size_t pos = 0; bool mism = false; std::string why;
        std::vector<EntropyReq> reqs = o.reqs;
        size_t ri = 0;
        while (pos < size) {
            if (o.counter > o.limit) {
                if (ri >= reqs.size()) { mism = true; why = "model expects an entropy request before output byte " + u2s(pos) + " of this call but none was made"; break; }
                const EntropyReq &r = reqs[ri++];
                if (r.emitted >= 0 && (size_t)r.emitted != pos) { mism = true; why = "entropy request observed after " + std::to_string(r.emitted) + " bytes of this call, model expects it after " + u2s(pos); break; }
                prng_model_reseed(w, o, r);
            }
            size_t n = std::min<size_t>(32, size - pos);
            uint8_t H[32];
            model_hash(w, H, o.V, 32);
            memcpy(exp.data() + pos, H, n);
            uint8_t pv[33]; pv[0] = 3; memcpy(pv + 1, o.V, 32);
            model_hash(w, H, pv, 33);
            uint32_t carry = o.counter; int chain = 0, maxchain = 0;
            // V = V + H + C + counter (big-endian 256-bit)
            uint8_t cb[32]; memset(cb, 0, 32);
            cb[31] = (uint8_t)o.counter; cb[30] = (uint8_t)(o.counter >> 8); cb[29] = (uint8_t)(o.counter >> 16); cb[28] = (uint8_t)(o.counter >> 24);
            carry = 0;
            for (int i = 31; i >= 0; i--) {
                uint32_t s = (uint32_t)o.V[i] + H[i] + o.C[i] + cb[i] + carry;
                o.V[i] = (uint8_t)s; carry = s >> 8;
                if (carry) { chain++; if (chain > maxchain) maxchain = chain; } else chain = 0;
            }
            if (maxchain >= 2) bump(w, CT_P_PRNG_CARRY_CHAIN);
            o.counter++;
            pos += n;
        }
        if (!mism && ri < reqs.size()) { mism = true; why = "the generator made " + u2s(reqs.size()) + " entropy requests during this call, the model " + u2s(ri); }
        if (!mism && size && memcmp(exp.data(), outp, size) != 0) {
            size_t k = 0; while (k < size && exp[k] == outp[k]) k++;
            mism = true; why = "output differs from Hash_DRBG model at byte " + u2s(k) + " of " + u2s(size);
        }
        uint32_t cc = o.counter == 1 ? 0 : o.counter < o.limit ? 1 : o.counter == o.limit ? 2 : 3;
        state(w, 0x150000u | (cc << 8) | (uint32_t)std::min<size_t>(reqs.size(), 3) << 4 | (size == 0 ? 0 : size < 32 ? 1 : size == 32 ? 2 : size % 32 ? 3 : 4));
        if (mism) { o.model_valid = false; report(w, model_prop, "drbg-mismatch", why); }
        else check_pass(w, model_prop);
    }
    // --- C17 (3): full output blocks of one instance are pairwise distinct and not all-zero
    if ((w.armed == C17 || w.armed == PR_NONE) && size >= 32 && o.blocks.size() < 4096) {
        for (size_t b = 0; b + 32 <= size && o.blocks.size() < 4096; b += 32) {
            if (all_zero(outp + b, 32)) report(w, C17, "constant-output", "generator emitted an all-zero 32-byte block");
            uint64_t h = hash_bytes(outp + b, 32, 0xB10C);
            for (uint64_t x : o.blocks) if (x == h) { report(w, C17, "constant-output", "generator emitted the same 32-byte block twice"); break; }
            o.blocks.push_back(h);
        }
        check_pass(w, C17);
    }
    if (o.out_log.size() < (1u << 20)) o.out_log.insert(o.out_log.end(), outp, outp + std::min<size_t>(size, 8192));
    for (auto &r : o.reqs) o.status_log.push_back(100 + r.k);
    o.reqs.clear();
}

static void do_prng(World &w, TaskState &t, const Op &op, int index) {
    PrngObj &o = t.p[op.obj % NOBJ];
    relocate(w, o.m, op);
    ensure(w, t, o.m, sizeof(tinyjambu_prng_state_t), 0x500 + (uint64_t)op.obj);
    tinyjambu_prng_state_t *st = (tinyjambu_prng_state_t *)o.m.p();
    o.owner = &t; o.index = op.obj % NOBJ;
    CurOp &c = t.cur;
    c.gen = &o; c.dev_req = 0; c.os_req = 0; c.genbuf = nullptr; c.gensize = 0; c.os_active = false; c.os_terminal = -1; c.os_calls = 0;
    c.opens = c.closes = 0; c.fds_open = 0; c.fd_next = 0; c.nfds = 0; c.nclosed = 0;
    const int model_prop = o.system || (op.kind == P_INIT && (op.flags & (F_SYSTEM | F_NULLCB))) ? C18 : C15;
    const bool model_on = (w.armed == model_prop || w.armed == PR_NONE);
    switch (op.kind) {
    case P_INIT: {
        std::vector<uint8_t> custom; op_bytes(custom, (size_t)op.a, op, 8);
        const unsigned char *cp = (op.flags & F_NOCUSTOM) ? nullptr : (custom.empty() ? g_dummy : custom.data());
        size_t clen = (op.flags & F_NOCUSTOM) ? 0 : custom.size();
        o.system = (op.flags & (F_SYSTEM | F_NULLCB)) != 0;
        if (o.system) o.ever_system = true;
        o.master = nullptr;
        if ((op.flags & F_NESTED) && !o.system) {
            PrngObj &mm = t.p[op.c % NOBJ];
            if (&mm != &o && mm.st == ST_LIVE && !mm.system && !mm.master) { o.master = &mm; o.nested_involved = true; mm.nested_involved = true; }
        }
        if (o.flip_op >= 0 && o.out_log.size() < o.flip_out_off + 16) o.flip_op = -1; // nothing was generated after the short delivery
        o.reqs.clear();
        if (o.st == ST_LIVE) bump(w, CT_F_ABANDON);
        int rc;
        {
            CallScope cs(t);
            if (op.flags & F_SYSTEM) { bump(w, CT_P_PRNG_SYSTEM); rc = tinyjambu_prng_init(st, cp, clen); }
            else if (op.flags & F_NULLCB) { bump(w, CT_P_PRNG_NULLCB); rc = tinyjambu_prng_init_user(st, nullptr, (void *)&o, cp, clen); }
            else rc = tinyjambu_prng_init_user(st, sim_device, (void *)&o, cp, clen);
        }
        o.st = ST_LIVE;
        EntropyReq r; bool any = take_req(o, r);
        o.reqs.clear();
        prng_status_check(w, o, rc, any, r, "PRNG initialisation");
        if (rc == 0) bump(w, CT_P_PRNG_INIT_FAIL);
        if (model_on) {
            uint8_t e[32]; memset(e, 0, 32);
            if (any) memcpy(e, r.buf, r.system ? 32 : (size_t)r.k);
            prng_model_seed(w, o, e, clen ? cp : nullptr, clen);
        } else o.model_valid = false;
        o.since = 0; o.feeds_since = 0; o.L = 1024; o.reconfigured = false;
        o.blocks.clear();
        o.status_log.push_back(rc != 0);
        fence_check(w, o.m, C15, "PRNG state");
        note(w, t, index, rc != 0, nullptr, 0);
        break;
    }
    case P_GEN: {
        if (o.st != ST_LIVE) { skip(w); return; }
        size_t size = (size_t)op.a;
        Buf out(size, (size_t)(op.b & 7));
        for (size_t i = 0; i < size; i++) out.p[i] = w.sentinel[i & 63];
        c.genbuf = out.p; c.gensize = size; c.sentinel = w.sentinel;
        o.reqs.clear();
        { CallScope cs(t); tinyjambu_prng_generate(st, out.p, size); }
        c.genbuf = nullptr;
        after_generate(w, t, o, out.p, size, model_prop, model_on);
        if (!out.tail_ok()) report(w, C15, "fence-broken", "PRNG generate wrote outside its output buffer");
        fence_check(w, o.m, C15, "PRNG state");
        note(w, t, index, 0, out.p, size);
        break;
    }
    case P_FEED: {
        if (o.st != ST_LIVE) { skip(w); return; }
        std::vector<uint8_t> data; op_bytes(data, (size_t)op.a, op, 1);
        const unsigned char *dp = (data.empty() && (op.flags & F_NULLPTR)) ? nullptr : (data.empty() ? g_dummy : data.data());
        o.reqs.clear();
        uint64_t reps = 1 + op.b;   // the same data fed reps times in a row (long feed runs reach integer-width corners of the counter)
        for (uint64_t rep = 0; rep < reps && !w.stop; rep++) {
            { CallScope cs(t); tinyjambu_prng_feed(st, dp, data.size()); }
            if (o.since + 32 * o.feeds_since >= o.L && rep == 0) bump(w, CT_P_PRNG_FEED_AT_EDGE);
            o.feeds_since++;
            if (!o.reqs.empty()) { o.since = 0; o.feeds_since = 0; } // an implementation may reseed here; never an alarm
            if (model_on && o.model_valid) {
                if (!o.reqs.empty()) o.model_valid = false; // outside the documented algorithm; stop modelling, C15 generate check will not run
                uint8_t nv[32];
                model_df(w, nv, 1, o.V, data.data(), data.size());
                memcpy(o.V, nv, 32);
                model_df(w, o.C, 0, o.V, nullptr, 0);
                o.counter++;
            }
            o.reqs.clear();
        }
        if (reps > 1) bump(w, CT_P_PRNG_FEED_RUN);
        fence_check(w, o.m, C15, "PRNG state");
        note(w, t, index, 0, nullptr, 0);
        break;
    }
    case P_RESEED: {
        if (o.st != ST_LIVE) { skip(w); return; }
        o.reqs.clear();
        int rc;
        { CallScope cs(t); rc = tinyjambu_prng_reseed(st); }
        EntropyReq r; bool any = take_req(o, r);
        prng_status_check(w, o, rc, any, r, "PRNG reseed");
        if (rc == 0) bump(w, CT_P_PRNG_RESEED_FAIL);
        if (any) { o.since = 0; o.feeds_since = 0; }
        if (model_on && o.model_valid) {
            if (!any) { o.model_valid = false; report(w, model_prop, "drbg-mismatch", "explicit reseed made no entropy request"); }
            else prng_model_reseed(w, o, r);
        }
        o.status_log.push_back(rc != 0);
        o.reqs.clear();
        fence_check(w, o.m, C15, "PRNG state");
        note(w, t, index, rc != 0, nullptr, 0);
        break;
    }
    case P_LIMIT: {
        if (o.st != ST_LIVE) { skip(w); return; }
        uint64_t lim = op.a;
        { CallScope cs(t); tinyjambu_prng_set_reseed_limit(st, (size_t)lim); }
        uint64_t newL = 32ULL * model_limit_blocks(lim);
        if (newL < o.since + 32 * o.feeds_since) bump(w, CT_P_PRNG_LIMIT_LOWERED_BELOW);
        o.L = newL; o.reconfigured = true;
        if (o.model_valid) o.limit = model_limit_blocks(lim);
        fence_check(w, o.m, C15, "PRNG state");
        note(w, t, index, 0, nullptr, 0);
        break;
    }
    case P_FREE: {
        if (o.st == ST_LIVE) bump(w, CT_P_FREE_MID);
        { CallScope cs(t); if (c_handle(op)) sim_c_prng_free(st); else tinyjambu_prng_free(st); if (op.flags & F_TWICE) { if (c_handle(op)) sim_c_prng_free(st); else tinyjambu_prng_free(st); bump(w, CT_P_FREE_TWICE); } }
        bump(w, CT_F_FREE_INJECTED);
        o.st = ST_DEAD; o.model_valid = false;
        bump(w, CT_P_FREE_CHECKED);
        if (!all_zero(o.m.p(), sizeof(tinyjambu_prng_state_t)))
            report(w, C20, "nonzero-after-free", "tinyjambu_prng_free left non-zero bytes in the " + u2s(sizeof(tinyjambu_prng_state_t)) + "-byte state object");
        else check_pass(w, C20);
        fence_check(w, o.m, C20, "PRNG state");
        note(w, t, index, 0, nullptr, 0);
        break;
    }
    case P_DIRTY: {
        if (o.st == ST_LIVE) bump(w, CT_F_ABANDON);
        slot_paint(o.m, op.dseed, (int)(op.a % 3));
        bump(w, CT_F_DIRTY);
        o.st = ST_DEAD; o.model_valid = false;
        note(w, t, index, 0, nullptr, 0);
        break;
    }
    default: break;
    }
    if (c.fds_open != 0) report(w, C18, "fd-leak", std::to_string(c.opens) + " descriptors opened, " + std::to_string(c.closes) + " closed during one PRNG call on the system source");
    c.gen = nullptr;
}

// ---------------------------------------------------------------- system entropy source (C18)
extern "C" int sim_trng_call(unsigned char *out);   // build.sh: trngshim.c (calls the tree's system entropy source, -2 if there is none)
static void do_trng(World &w, TaskState &t, const Op &op, int index) {
    CurOp &c = t.cur;
    c.gen = nullptr; c.os_req = 0; c.os_active = false; c.os_terminal = -1; c.os_calls = 0; c.os_extra = 0; c.os_have_ok = false;
    c.opens = c.closes = 0; c.fds_open = 0; c.fd_next = 0; c.nfds = 0; c.nclosed = 0;
    Buf out(32, (size_t)(op.b & 7));
    memset(out.p, 0xA5, 32);
    int rc;
    { CallScope cs(t); rc = sim_trng_call(out.p); }
    if (rc == -2) { skip(w); return; }   // this tree has no separately callable system source: covered through the PRNG ops only
    bump(w, CT_P_TRNG_CALLS);
    bool on = (w.armed == C18 || w.armed == PR_NONE);
    if (on) {
        int term = c.os_terminal; // 0 success, >0 permanent errno, -1: no OS call reached a terminal answer
        size_t transients = 0;
        if (!op.os.empty()) for (int el : op.os[0]) if (el == EINTR || el == EAGAIN) transients++;
        uint32_t tc = transients == 0 ? 0 : transients == 1 ? 1 : transients < 6 ? 2 : 3;
        state(w, 0x180000u | (tc << 8) | (uint32_t)(term < 0 ? 255 : term));
        if (term == 0) {
            if (c.os_calls > 1) bump(w, CT_P_TRNG_SUCCESS_AFTER_RETRY);
            if (rc == 0) report(w, C18, "spurious-failure", "OS call succeeded after " + std::to_string(c.os_calls - 1) + " transient errors but the system source reported failure");
            else if (c.os_delivered < 32 || memcmp(out.p, c.os_last_ok, 32) != 0) report(w, C18, "wrong-seed-bytes", "system source reported success but the seed is not the (last) 32 bytes the OS delivered for this request");
            else check_pass(w, C18);
        } else if (term > 0) {
            bump(w, CT_P_TRNG_PERMANENT);
            if (rc != 0) report(w, C18, "failure-not-reported", "OS entropy call failed permanently (errno " + std::to_string(term) + ") but the system source reported success");
            else if (!all_zero(out.p, 32)) report(w, C18, "seed-not-zeroed", "permanent OS error (errno " + std::to_string(term) + "): seed buffer not zeroed on failure");
            else check_pass(w, C18);
        } else {
            if (c.os_calls > 0)
                report(w, C18, "gave-up-on-transient", "system source returned " + std::to_string(rc) + " after " + std::to_string(c.os_calls) + " transient OS errors (EINTR/EAGAIN) instead of retrying until the OS answers");
            else
                report(w, C18, "no-os-call", "system source returned " + std::to_string(rc) + " without making the OS entropy call");
        }
        if (c.fds_open != 0) report(w, C18, "fd-leak", std::to_string(c.opens) + " open(), " + std::to_string(c.closes) + " close() during one call");
    }
    if (!out.tail_ok()) report(w, C18, "fence-broken", "system source wrote outside the 32-byte seed buffer");
    note(w, t, index, rc != 0, out.p, 32);
}

// ---------------------------------------------------------------- stateless one-shots (mix engine, C19)
typedef void (*enc_fn)(unsigned char *, size_t *, const unsigned char *, size_t, const unsigned char *, size_t, const unsigned char *, const unsigned char *);
typedef int (*dec_fn)(unsigned char *, size_t *, const unsigned char *, size_t, const unsigned char *, size_t, const unsigned char *, const unsigned char *);
static void do_aead(World &w, TaskState &t, const Op &op, int index) {
    static const enc_fn ENC[6] = {tinyjambu_128_aead_encrypt, tinyjambu_192_aead_encrypt, tinyjambu_256_aead_encrypt, tinyjambu_128_siv_encrypt, tinyjambu_192_siv_encrypt, tinyjambu_256_siv_encrypt};
    static const dec_fn DEC[6] = {tinyjambu_128_aead_decrypt, tinyjambu_192_aead_decrypt, tinyjambu_256_aead_decrypt, tinyjambu_128_siv_decrypt, tinyjambu_192_siv_decrypt, tinyjambu_256_siv_decrypt};
    int v = (int)(op.a % 3) + ((op.kind == S_ENC || op.kind == S_DEC) ? 3 : 0);
    size_t mlen = (size_t)op.b, adlen = (size_t)op.c;
    std::vector<uint8_t> key, nonce, ad, msg;
    op_bytes(key, 32, op, 10); op_bytes(nonce, 12, op, 11); op_bytes(ad, adlen, op, 12); op_bytes(msg, mlen, op, 13);
    Buf adb(adlen, (size_t)(op.d & 3));
    if (adlen) memcpy(adb.p, ad.data(), adlen);
    if (op.kind == A_ENC || op.kind == S_ENC) {
        Buf c(mlen + 8, (size_t)((op.d >> 2) & 3));
        size_t clen = 0;
        const unsigned char *mp = msg.empty() ? g_dummy : msg.data();
        if ((op.flags & F_INPLACE) && mlen) { memcpy(c.p, msg.data(), mlen); mp = c.p; }
        { CallScope cs(t); ENC[v](c.p, &clen, mp, mlen, adb.p, adlen, nonce.data(), key.data()); }
        note(w, t, index, (int)clen, c.p, mlen + 8);
    } else {
        std::vector<uint8_t> pkt(mlen + 8);
        { OracleScope os(w); size_t clen = 0; ENC[v](pkt.data(), &clen, msg.empty() ? g_dummy : msg.data(), mlen, adb.p, adlen, nonce.data(), key.data()); }
        if (op.flags & F_CORRUPT) { size_t bit = (size_t)((op.d >> 8) % ((mlen + 8) * 8)); pkt[bit / 8] ^= (uint8_t)(1u << (bit % 8)); }
        const bool inpl = (op.flags & F_INPLACE) != 0;
        Buf m(inpl ? mlen + 8 : mlen, (size_t)((op.d >> 2) & 3));   // out of place: exactly the plaintext length
        memset(m.p, 0xEE, inpl ? mlen + 8 : mlen);
        const unsigned char *cp = pkt.data();
        if (op.flags & F_INPLACE) { memcpy(m.p, pkt.data(), mlen + 8); cp = m.p; }
        size_t outlen = 0; int rc;
        { CallScope cs(t); rc = DEC[v](m.p, &outlen, cp, mlen + 8, adb.p, adlen, nonce.data(), key.data()); }
        note(w, t, index, rc * 1000 + (int)outlen, m.p, mlen);
    }
}
static void do_oneshot(World &w, TaskState &t, const Op &op, int index) {
    if (op.kind == H_ONESHOT) {
        std::vector<uint8_t> msg; op_bytes(msg, (size_t)op.a, op, 1);
        Buf in(msg.size(), (size_t)(op.b & 7));
        if (!msg.empty()) memcpy(in.p, msg.data(), msg.size());
        Buf outb(32, 0);
        uint8_t *out = outb.p;
        { CallScope cs(t); tinyjambu_hash(out, in.p, msg.size()); }
        note(w, t, index, 0, out, 32);
    } else { // B_PBKDF2
        size_t outlen = (size_t)op.a;
        std::vector<uint8_t> pw, salt; op_bytes(pw, (size_t)op.b, op, 14); op_bytes(salt, (size_t)op.c, op, 15);
        Buf out(outlen, 0);
        { CallScope cs(t); tinyjambu_pbkdf2(out.p, outlen, pw.empty() ? g_dummy : pw.data(), pw.size(), salt.empty() ? g_dummy : salt.data(), salt.size(), (unsigned long)op.d); }
        note(w, t, index, 0, out.p, outlen);
    }
}

// Upper bound (generous) on the permutation calls an op can legitimately need, from its arguments alone.
// The hang budget is derived from it, so that heavy but legal workloads (65 536 feeds, 1 MiB generates,
// exhausting an HKDF object) are never mistaken for a library call that does not return.
static uint64_t est_perm_calls(const Op &op) {
    uint64_t a = op.a, b = op.b, c = op.c, d = op.d;
    uint64_t scripts = 0;
    for (auto &s : op.os) scripts += s.size() + 70;
    switch (op.kind) {
    case H_INIT: case H_REINIT: case H_FREE: case H_DIRTY: case H_FINAL: return 16;
    case H_UPDATE: case H_ONESHOT: return 2 * (a / 16 + 8);
    case M_INIT: case M_REINIT: case M_FINAL: case M_FREE: case M_DIRTY: return 2 * (a / 16 + 2200 / 16 + 40);
    case M_UPDATE: return 2 * (a / 16 + 8);
    case M_ONESHOT: return 4 * ((a + b) / 16 + 40);
    case K_EXTRACT: return (1 + d) * 4 * ((a + b) / 16 + 60);
    case K_EXPAND: return (std::min<uint64_t>(a, 8160) / 32 + 2) * (2 * (600 / 16 + 40)) + 64;
    case K_ONESHOT: return (std::min<uint64_t>(a, 8160) / 32 + 2) * (2 * ((d + 64) / 16 + 40)) + 4 * ((b + c) / 16 + 60);
    case K_FREE: case K_DIRTY: case X_CLEAN: case P_LIMIT: case P_FREE: case P_DIRTY: return 16;
    case P_INIT: return 2 * (a / 16 + 40) + scripts;
    case P_GEN: return (a / 32 + 2) * 64 + scripts;
    case P_FEED: return (1 + b) * 2 * (a / 16 + 24);
    case P_RESEED: return 80 + scripts;
    case T_GENERATE: return 80 + scripts;
    case A_ENC: case A_DEC: case S_ENC: case S_DEC: return 4 * ((b + c) / 4 + 40);
    case B_PBKDF2: return (a / 32 + 2) * (std::max<uint64_t>(d, 1) + 1) * 4 * ((b + c) / 16 + 40);
    default: return 64;
    }
}

// ---------------------------------------------------------------- dispatch
void exec_op(World &w, TaskState &t, const Op &op, int index) {
    t.cur.op = &op; t.cur.index = index;
    t.cur.op_events = 0;
    t.cur.op_budget = 400000 + 2000 * est_perm_calls(op);   // >= 20x the yield points a permutation call can produce
    {   // errno the caller happens to hold when it enters the library: a seeded value, so that code which
        // (wrongly) looks at errno after a successful call behaves the same in every process
        static const int E[4] = {0, EINTR, EAGAIN, EIO};
        // (a different value in each reference world of the mix engine: results must not depend on it)
        t.cur.entry_errno = w.plan->os_stale_errno ? E[((op.dseed >> 4) + w.world_id) & 3] : 0;
    }
    if (op.flags & F_FORK) { t.pid_epoch++; bump(w, CT_F_FORK); }
    if (g_beacon) { g_beacon->op_kind = op.kind; g_beacon->op_flags = op.flags; }
    if (w.stats) { w.stats->c[CT_OPS]++; if (op.kind > 0 && op.kind < OP_KIND_COUNT) w.stats->opk[op.kind]++; }
    uint64_t heap0 = w.heap_calls;
    uint64_t asan_r0 = g_asan_reports, asan_w0 = g_asan_writes;
    switch (op.kind) {
    case H_INIT: case H_REINIT: case H_UPDATE: case H_FINAL: case H_FREE: case H_DIRTY: do_hash(w, t, op, index); break;
    case M_INIT: case M_REINIT: case M_UPDATE: case M_FINAL: case M_FREE: case M_DIRTY: case M_ONESHOT: do_hmac(w, t, op, index); break;
    case K_EXTRACT: case K_EXPAND: case K_FREE: case K_DIRTY: case K_ONESHOT: do_hkdf(w, t, op, index); break;
    case X_CLEAN: do_clean(w, t, op, index); break;
    case P_INIT: case P_GEN: case P_FEED: case P_RESEED: case P_LIMIT: case P_FREE: case P_DIRTY: do_prng(w, t, op, index); break;
    case T_GENERATE: do_trng(w, t, op, index); break;
    case A_ENC: case A_DEC: case S_ENC: case S_DEC: do_aead(w, t, op, index); break;
    case H_ONESHOT: case B_PBKDF2: do_oneshot(w, t, op, index); break;
    default: break;
    }
    if (w.stats && t.cur.op_budget) {
        uint64_t pm = t.cur.op_events * 1000 / t.cur.op_budget;
        if (pm > w.stats->max_budget_permille) w.stats->max_budget_permille = pm;
    }
    if (w.heap_calls != heap0)
        report(w, C19, "heap-call", std::string("library code called the allocator during ") + op_name(op.kind));
    if (g_asan_writes != asan_w0) {
        // a store outside the buffers the caller handed in: somebody else's bytes (another state object, the bytes next
        // to a requested range) were written. Only counted where that is what the armed statement is about.
        bool relevant = true;
        if (w.armed == C20) relevant = (op.kind == H_FREE || op.kind == M_FREE || op.kind == K_FREE || op.kind == P_FREE || op.kind == X_CLEAN);
        if (w.armed == C16) relevant = false;
        if (relevant) report(w, w.armed, "sanitizer-write", std::string(op_name(op.kind)) + ": " + g_asan_first);
        else bump(w, CT_ASAN_READ_OBS);
    } else if (g_asan_reports != asan_r0) {
        bump(w, CT_ASAN_READ_OBS); // over-read: memory safety (C06, not claimed) -- an observation, never a violation
    }
    t.cur.op = nullptr;
}

void world_objects_init(World &w) {
    for (int i = 0; i < (int)w.plan->tasks.size(); i++) {
        w.ts[i] = new TaskState();
        w.ts[i]->w = &w; w.ts[i]->id = i;
        w.ts[i]->res.resize(w.plan->tasks[(size_t)i].ops.size());
    }
    fill_bytes(w.sentinel, 64, w.plan->arena_seed, 0x5E47);
}
void world_objects_fini(World &w) {
    for (int i = 0; i < MAXTASK; i++) {
        TaskState *t = w.ts[i];
        if (!t) continue;
        for (int k = 0; k < NOBJ; k++) { slot_free(t->h[k].m); slot_free(t->m[k].m); slot_free(t->k[k].m); slot_free(t->p[k].m); }
        slot_free(t->clean_slot);
        delete t;
        w.ts[i] = nullptr;
    }
}
