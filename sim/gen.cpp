// Plan generators: one seed -> one explicit plan (ops, faults attached to ops, schedule knobs).
#include "sim.hpp"
#include <cerrno>
#include <algorithm>

namespace {

struct GHash { int st = ST_DEAD; size_t len = 0; };
struct GHmac { int st = ST_DEAD; size_t len = 0; size_t lastkey = 0; uint64_t lastseed = 0; };
struct GHkdf { int st = ST_DEAD; size_t cur = 0; bool exhaust = false; };
struct GPrng { int st = ST_DEAD; uint64_t counter = 1, limit = 32; uint64_t since = 0; bool system = false; bool after_run = false; };

struct Ctx {
    Rng &r; int armed; bool thorough; bool faults; // faults: short/zero deliveries & OS errors enabled in this run
};

uint64_t ds(Rng &r) { return r.next() | 1; }

size_t small_len(Rng &r) {
    uint32_t c = r.below(100);
    if (c < 55) return r.below(41);
    if (c < 85) return r.below(130);
    if (c < 98) return r.below(700);
    if (r.chance(1, 40)) return 60000 + r.below(12000);   // rarely: past any 16-bit length corner
    return 1000 + r.below(7500);
}

size_t hash_update_len(Rng &r, size_t cur) {
    unsigned posn = (unsigned)(cur % 16);
    uint32_t c = r.below(100);
    if (c < 12) return 0;
    if (c < 60) {
        if (posn) {
            unsigned need = 16 - posn;
            static const int D[] = {-1, 0, 1, 15, 16, 17, 32, 33, 2, 47};
            int v = (int)need + D[r.below(10)];
            return v < 0 ? 0 : (size_t)v;
        }
        static const size_t B[] = {1, 15, 16, 17, 31, 32, 33, 48, 5, 11};
        return B[r.below(10)];
    }
    return small_len(r);
}

Op mk(int kind, int obj) { Op o; o.kind = kind; o.obj = obj; return o; }

// ------------------------------------------------------------ hash family
Op gen_hash(Ctx &c, GHash &g, int obj, bool erase_bias) {
    Rng &r = c.r;
    uint32_t x = r.below(100);
    Op o;
    if (g.st == ST_DEAD) {
        if (x < 66) o = mk(H_INIT, obj); else if (x < 78) o = mk(H_REINIT, obj); else if (x < 90) o = mk(H_DIRTY, obj); else o = mk(H_FREE, obj);
    } else if (g.st == ST_LIVE) {
        uint32_t fr = erase_bias ? 14 : 4;
        if (x < 68 - fr) o = mk(H_UPDATE, obj);
        else if (x < 84 - fr) o = mk(H_FINAL, obj);
        else if (x < 88 - fr) o = mk(H_INIT, obj);
        else if (x < 92 - fr) o = mk(H_REINIT, obj);
        else if (x < 96 - fr) o = mk(H_DIRTY, obj);
        else o = mk(H_FREE, obj);
    } else {
        if (x < 35) o = mk(H_INIT, obj); else if (x < 65) o = mk(H_REINIT, obj); else if (x < 82) o = mk(H_FREE, obj); else o = mk(H_DIRTY, obj);
    }
    o.dseed = ds(r);
    switch (o.kind) {
    case H_INIT: case H_REINIT: g.st = ST_LIVE; g.len = 0; break;
    case H_UPDATE:
        o.a = hash_update_len(r, g.len);
        if (g.len + o.a > 9000 && o.a < 60000) o.a = r.below(20);
        o.b = r.below(8);
        if (o.a == 0 && r.chance(1, 2)) o.flags |= F_NULLPTR;
        g.len += o.a;
        break;
    case H_FINAL: o.b = r.below(8); g.st = ST_FINAL; break;
    case H_FREE: if (r.chance(1, 6)) o.flags |= F_TWICE; g.st = ST_DEAD; break;
    case H_DIRTY: o.a = r.below(4); g.st = ST_DEAD; break;
    }
    return o;
}

// ------------------------------------------------------------ hmac family
size_t hmac_keylen(Rng &r) {
    static const size_t K[] = {0, 0, 1, 16, 31, 32, 33, 63, 64, 65, 66, 127, 128, 200};
    if (r.chance(1, 40)) return 400 + r.below(1700);
    if (r.chance(1, 5)) return r.below(400);
    return K[r.below(14)];
}
Op gen_hmac(Ctx &c, GHmac &g, int obj, bool erase_bias) {
    Rng &r = c.r;
    uint32_t x = r.below(100);
    Op o;
    if (x < 8) {
        o = mk(M_ONESHOT, obj);
        o.a = hmac_keylen(r); o.b = r.chance(1, 3) ? hash_update_len(r, 64) : small_len(r); o.c = r.below(512); o.dseed = ds(r);
        if (o.a == 0 && r.chance(1, 2)) o.flags |= F_NULLPTR;
        if (r.chance(1, 5)) o.flags |= F_INPLACE;
        return o;
    }
    x = r.below(100);
    if (g.st == ST_DEAD) {
        if (x < 70) o = mk(M_INIT, obj); else if (x < 82) o = mk(M_REINIT, obj); else if (x < 92) o = mk(M_DIRTY, obj); else o = mk(M_FREE, obj);
    } else if (g.st == ST_LIVE) {
        uint32_t fr = erase_bias ? 14 : 4;
        if (x < 62 - fr) o = mk(M_UPDATE, obj);
        else if (x < 84 - fr) o = mk(M_FINAL, obj);
        else if (x < 87 - fr) o = mk(M_INIT, obj);
        else if (x < 93 - fr) o = mk(M_REINIT, obj);
        else if (x < 96 - fr) o = mk(M_DIRTY, obj);
        else o = mk(M_FREE, obj);
    } else {
        if (x < 25) o = mk(M_INIT, obj); else if (x < 75) o = mk(M_REINIT, obj); else if (x < 90) o = mk(M_FREE, obj); else o = mk(M_DIRTY, obj);
    }
    o.dseed = ds(r);
    switch (o.kind) {
    case M_INIT: case M_REINIT:
        o.a = (g.lastkey && r.chance(1, 3)) ? g.lastkey : hmac_keylen(r);
        if (g.lastseed && r.chance(1, 6)) {   // the new key shares its bytes with the previous one: a prefix or an extension of it
            o.dseed = g.lastseed;
            uint32_t y = r.below(4);
            o.a = y == 0 ? g.lastkey / 2 : y == 1 ? (g.lastkey ? g.lastkey - 1 : 0) : y == 2 ? g.lastkey + 1 + r.below(40) : 0;
        }
        g.lastkey = o.a; g.lastseed = o.dseed;
        o.b = r.below(8);   // alignment of the key inside the caller's key buffer
        if (o.a == 0 && r.chance(1, 2)) o.flags |= F_NULLPTR;
        g.st = ST_LIVE; g.len = 64; break;
    case M_UPDATE:
        o.a = hash_update_len(r, g.len);
        if (g.len + o.a > 5000) o.a = r.below(20);
        o.b = r.below(8);
        if (o.a == 0 && r.chance(1, 2)) o.flags |= F_NULLPTR;
        g.len += o.a; break;
    case M_FINAL: o.b = r.below(128); g.st = ST_FINAL; break;
    case M_FREE: if (r.chance(1, 6)) o.flags |= F_TWICE; g.st = ST_DEAD; break;
    case M_DIRTY: o.a = r.below(3); g.st = ST_DEAD; break;
    }
    return o;
}

// ------------------------------------------------------------ hkdf family
size_t hkdf_saltlen(Rng &r) { static const size_t S[] = {0, 0, 1, 32, 64, 65, 100, 16}; if (r.chance(1, 25)) return 101 + r.below(300); return S[r.below(8)]; }
size_t hkdf_infolen(Rng &r) { if (r.chance(1, 25)) return 81 + r.below(400); return r.below(81); }
Op gen_hkdf(Ctx &c, GHkdf &g, int obj, bool erase_bias) {
    Rng &r = c.r;
    uint32_t x = r.below(100);
    Op o;
    if (x < 10) {
        o = mk(K_ONESHOT, obj);
        static const size_t L[] = {0, 1, 31, 32, 33, 64, 100, 8159, 8160, 8161, 8192, 100000, 42, 82};
        o.a = r.chance(1, 4) ? small_len(r) : L[r.below(14)];
        if (!c.thorough && o.a >= 8159 && o.a <= 8160 && r.chance(1, 2)) o.a = 8161; // keep quick runs cheap: refusals cost nothing
        o.b = r.chance(1, 25) ? r.below(600) : r.below(70); o.c = hkdf_saltlen(r); o.d = hkdf_infolen(r); o.dseed = ds(r);
        if (o.c == 0 && r.chance(1, 2)) o.flags |= F_NULLPTR;
        return o;
    }
    x = r.below(100);
    if (g.st != ST_LIVE) {
        if (x < 80) o = mk(K_EXTRACT, obj); else if (x < 90) o = mk(K_DIRTY, obj); else o = mk(K_FREE, obj);
    } else {
        uint32_t fr = erase_bias ? 14 : 4;
        if (x < 88 - fr) o = mk(K_EXPAND, obj);
        else if (x < 94 - fr) o = mk(K_EXTRACT, obj);
        else if (x < 97 - fr) o = mk(K_DIRTY, obj);
        else o = mk(K_FREE, obj);
    }
    o.dseed = ds(r);
    switch (o.kind) {
    case K_EXTRACT:
        o.a = r.chance(1, 25) ? r.below(600) : r.chance(1, 4) ? r.below(200) : r.below(40);
        o.b = hkdf_saltlen(r);
        o.c = hkdf_infolen(r);
        if (o.b == 0 && r.chance(1, 2)) o.flags |= F_NULLPTR;
        if (o.c == 0 && r.chance(1, 2)) o.flags |= F_NOCUSTOM;
        g.st = ST_LIVE; g.cur = 0; g.exhaust = r.chance(c.thorough ? 30 : 12, 100);
        break;
    case K_EXPAND: {
        size_t rem = 8160 - g.cur;
        uint32_t y = r.below(100);
        size_t len;
        if (g.exhaust && rem > 0) {
            if (y < 55) len = 1000 + r.below(3000);
            else if (y < 70) len = rem > 1 ? rem - 1 : rem;
            else if (y < 80) len = rem;
            else if (y < 90) len = rem + 1;
            else len = rem + 100;
        } else if (rem == 0) {
            static const size_t Z[] = {0, 1, 31, 32, 33, 100};
            len = Z[r.below(6)];
        } else {
            size_t left = (g.cur % 32) ? 32 - g.cur % 32 : 0;
            if (y < 8) len = 0;
            else if (y < 30 && left) { static const int D[] = {-1, 0, 1, 31, 32, 33}; int v = (int)left + D[r.below(6)]; len = v < 0 ? 0 : (size_t)v; }
            else if (y < 60) len = 1 + r.below(31);
            else if (y < 72) len = 32;
            else if (y < 92) len = 33 + r.below(68);
            else len = 100 + r.below(400);
        }
        if (r.chance(1, 150)) { static const size_t HUGE[] = {65535, 65536, 65537, 65636, 70000, 73696, 131072, 1000000}; len = HUGE[r.below(8)]; }   // 16-bit corners of the request length
        o.a = len; o.b = r.below(256);
        g.cur = std::min<size_t>(8160, g.cur + len);
        break;
    }
    case K_FREE: if (r.chance(1, 6)) o.flags |= F_TWICE; g.st = ST_DEAD; break;
    case K_DIRTY: o.a = r.below(3); g.st = ST_DEAD; break;
    }
    return o;
}

// ------------------------------------------------------------ prng family
int delivery(Ctx &c) {
    if (!c.faults) return 32;
    uint32_t x = c.r.below(100);
    if (x < 62) return 32;
    static const int D[] = {31, 17, 1, 0, 0, 16};
    return D[c.r.below(6)];
}
std::vector<int> os_script(Ctx &c, bool allow_perm) {
    std::vector<int> s;
    Rng &r = c.r;
    if (!c.faults) { return s; }
    uint32_t n = 0;
    if (!r.chance(1, 2)) {
        uint32_t y = r.below(100);
        static const uint32_t NB[] = {7, 8, 9, 15, 16, 17, 31, 32, 33, 63, 64, 65, 100, 127, 128, 129, 255, 256, 257};
        if (y < 45) n = r.geo(3);
        else if (y < 80) n = NB[r.below(19)];
        else if (y < 97) n = 1 + r.below(300);
        else n = 1000 + r.below(3000);
    }
    uint32_t comp = r.below(3); // 0 all EINTR, 1 all EAGAIN, 2 mixed
    for (uint32_t i = 0; i < n; i++) {
        uint32_t x = r.below(100);
        if (comp == 0) s.push_back(EINTR);
        else if (comp == 1) s.push_back(EAGAIN);
        else if (x < 45) s.push_back(EINTR);
        else if (x < 90 || n > 64) s.push_back(EAGAIN);
        else s.push_back(2000 + (int)r.below(32)); // short read (only an event in the /dev/urandom build)
    }
    uint32_t t = r.below(100);
    if (allow_perm && t < 30) {
        static const int P[] = {EIO, ENOSYS, EPERM, EFAULT, EINVAL, ENOENT};
        int e = r.chance(1, 2) ? P[r.below(6)] : 1 + (int)r.below(133);   // any errno other than EINTR/EAGAIN is permanent
        if (e == EINTR || e == EAGAIN) e = EIO;
        s.push_back(e);
    } else if (allow_perm && t < 38) {
        static const int O[] = {ENOENT, EMFILE, EACCES};
        s.insert(s.begin(), 1000 + O[r.below(3)]); // open() failure (only an event in the /dev/urandom build)
    } else s.push_back(0);
    return s;
}
uint64_t model_blocks(uint64_t lim) { if (lim > 1048576ULL) lim = 1048576ULL; uint64_t b = (lim + 31) / 32; return b ? b : 1; }

Op gen_prng(Ctx &c, GPrng &g, int obj, bool erase_bias, bool sys_only) {
    Rng &r = c.r;
    uint32_t x = r.below(100);
    Op o;
    if (g.st != ST_LIVE) {
        if (x < 86) o = mk(P_INIT, obj); else if (x < 93) o = mk(P_DIRTY, obj); else o = mk(P_FREE, obj);
    } else if (g.after_run) {   // right after a long run of feeds: the interesting next calls are a reseed or a generate
        g.after_run = false;
        o = mk(x < 50 ? P_RESEED : x < 90 ? P_GEN : P_LIMIT, obj);
    } else {
        uint32_t fr = erase_bias ? 12 : 3;
        if (x < 50 - fr) o = mk(P_GEN, obj);
        else if (x < 63 - fr) o = mk(P_FEED, obj);
        else if (x < 75 - fr) o = mk(P_RESEED, obj);
        else if (x < 90 - fr) o = mk(P_LIMIT, obj);
        else if (x < 95 - fr) o = mk(P_INIT, obj);
        else if (x < 97 - fr) o = mk(P_DIRTY, obj);
        else o = mk(P_FREE, obj);
    }
    o.dseed = ds(r);
    if ((c.armed == C15 || c.armed == C17) && g.st == ST_LIVE && r.chance(1, 60)) o.flags |= F_FORK;   // the object is now used from a forked child
    switch (o.kind) {
    case P_INIT: {
        uint32_t y = r.below(100);
        bool allow_sys = (c.armed == C17 || c.armed == C18 || c.armed == C19 || c.armed == C16);
        if (sys_only) o.flags |= F_SYSTEM;
        else if (allow_sys && y < 18) o.flags |= F_SYSTEM;
        else if (allow_sys && y < 36 && c.armed != C16) o.flags |= F_NULLCB;
        g.system = (o.flags & (F_SYSTEM | F_NULLCB)) != 0;
        o.a = r.chance(1, 4) ? 0 : r.chance(1, 25) ? r.below(400) : r.below(60);
        if (r.chance(1, c.thorough ? 1500 : 4000)) { static const uint64_t BIGC[] = {65535, 65536, 65537, 1048575, 1048576, 1048577, 1100000}; o.a = BIGC[r.below(7)]; }   // length corners of the personalisation string
        if (o.a == 0 && r.chance(1, 2)) o.flags |= F_NOCUSTOM;
        if (g.system) o.os.push_back(os_script(c, true)); else o.del.push_back(delivery(c));
        if (!g.system && (c.armed == C15 || c.armed == C16) && r.chance(1, 6)) { o.flags |= F_NESTED; o.c = r.below(NOBJ); }   // entropy drawn from another generator
        g.st = ST_LIVE; g.counter = 1; g.limit = 32; g.since = 0;
        break;
    }
    case P_GEN: {
        uint64_t rem_blocks = g.counter > g.limit ? 0 : g.limit - g.counter + 1;
        uint32_t y = r.below(100);
        size_t size;
        if (y < 38 && rem_blocks <= 300) {
            static const int D[] = {-32, -1, 0, 1, 32, 33, 64};
            long v = (long)(32 * rem_blocks) + D[r.below(7)];
            size = v < 0 ? 0 : (size_t)v;
        } else if (y < 80) {
            static const size_t S[] = {0, 1, 31, 32, 33, 64, 100, 1023, 1024, 1025, 4096, 5, 96, 200};
            size = S[r.below(14)];
        } else if (y < 99 || !c.thorough) size = small_len(r);
        else size = 40000;
        o.a = size; o.b = r.below(8);
        uint64_t blocks = (size + 31) / 32;
        uint64_t nres = 0;
        { // how many auto reseeds will this call make (abstractly)?
            uint64_t ctr = g.counter, b = blocks;
            while (b > 0) { if (ctr > g.limit) { nres++; ctr = 1; } uint64_t can = g.limit - ctr + 1; uint64_t take = std::min(can, b); ctr += take; b -= take; }
            g.counter = ctr;
        }
        uint64_t lists = std::min<uint64_t>(nres, 40);
        if (g.system) { for (uint64_t i = 0; i < lists; i++) o.os.push_back(os_script(c, true)); }
        else {
            for (uint64_t i = 0; i < lists; i++) o.del.push_back(delivery(c));
            while (!o.del.empty() && o.del.back() == 32) o.del.pop_back();
            if (c.faults && r.chance(1, 25)) o.del.push_back(r.chance(1, 2) ? -1 : -2);   // from here on the source keeps failing (0 bytes / 7 bytes) for the rest of the call
        }
        break;
    }
    case P_FEED:
        o.a = r.chance(1, 5) ? 0 : r.chance(1, 30) ? 1 + r.below(2000) : 1 + r.below(100);
        if (o.a == 0 && r.chance(1, 2)) o.flags |= F_NULLPTR;
        g.counter++;
        if (r.chance(1, 12)) { // a run of feeds: budget edge, and (rarely) the 8/16-bit corners of the block counter
            uint64_t left = g.counter > g.limit ? 0 : g.limit - g.counter;
            uint32_t y = r.below(100);
            uint64_t reps;
            if (y < 55) reps = left + r.below(3);
            else if (y < 90) reps = 1 + r.below(40);
            else if (y < 96 || (c.armed != C16 && c.armed != C15 && c.armed != C17) || (c.armed == C15 && !c.thorough && !r.chance(1, 20)) || (c.armed == C17 && !c.thorough && !r.chance(1, 3))) { static const uint64_t W8[] = {253, 254, 255, 256, 257}; reps = W8[r.below(5)]; }
            else { static const uint64_t W16[] = {65533, 65534, 65535, 65536, 65537, 70000, 65535, 65535}; reps = W16[r.below(8)]; if (!c.thorough && c.armed == C16 && r.chance(2, 3)) reps = 255; }
            if (reps > 70000) reps = 70000;
            if (reps > 0) { o.b = reps - 1; g.counter += reps - 1; }
            if (reps > 200) g.after_run = true;
        }
        break;
    case P_RESEED:
        if (g.system) o.os.push_back(os_script(c, true)); else { int d = delivery(c); if (d != 32) o.del.push_back(d); }
        g.counter = 1;
        break;
    case P_LIMIT: {
        uint32_t y = r.below(100);
        uint64_t emitted = 32 * (g.counter - 1);
        if (y < 35) {
            static const long D[] = {-64, -32, -1, 0, 1, 32, 64};
            long v = (long)emitted + D[r.below(7)];
            o.a = v < 0 ? 0 : (uint64_t)v;
        } else {
            static const uint64_t L[] = {0, 1, 31, 32, 33, 64, 96, 1000, 1024, 4096, 1048576ULL, 1048577ULL, ~0ULL, 160,
                                         0xFFFFFFFFULL, 1ULL << 32, (1ULL << 32) + 33, 1ULL << 37, (1ULL << 37) + 100, 1ULL << 40, 1ULL << 63, ~0ULL - 31};   // widths of size_t
            o.a = L[r.below(22)];
        }
        g.limit = model_blocks(o.a);
        break;
    }
    case P_FREE: if (r.chance(1, 6)) o.flags |= F_TWICE; g.st = ST_DEAD; break;
    case P_DIRTY: o.a = r.below(3); g.st = ST_DEAD; break;
    }
    return o;
}

Op gen_clean(Ctx &c) {
    Op o = mk(X_CLEAN, 0);
    Rng &r = c.r;
    o.a = r.below(16) + (r.chance(1, 4) ? 16 * r.below(3) : 0);
    uint32_t y = r.below(100);
    if (y < 30) { static const size_t S[] = {0, 1, 2, 3, 4, 7, 8, 9, 15, 16, 17, 31, 32, 33, 63, 64, 65, 255, 256, 300}; o.b = S[r.below(20)]; }
    else if (y < 94) o.b = r.below(301);
    else { static const size_t BS[] = {511, 512, 513, 1023, 1024, 1025, 4095, 4096, 4097, 8000}; o.b = r.chance(1, 2) ? BS[r.below(10)] : 301 + r.below(7800); }
    o.dseed = ds(r);
    o.d = r.below(2);   // dirty upper half of the size register
    if (r.chance(1, 7)) { o.flags |= F_BOUNDARY; o.c = r.below(5); o.a = r.below(3); if (o.b > 4000) o.b = 4000; }
    return o;
}

Op gen_trng(Ctx &c) {
    Op o = mk(T_GENERATE, 0);
    o.dseed = ds(c.r); o.b = c.r.below(8);
    bool save = c.faults; c.faults = true;
    o.os.push_back(os_script(c, true));
    c.faults = save;
    return o;
}

Op gen_stateless(Ctx &c) {
    Rng &r = c.r;
    uint32_t x = r.below(100);
    Op o;
    if (x < 60) {
        static const int K[] = {A_ENC, A_DEC, S_ENC, S_DEC};
        o = mk(K[r.below(4)], 0);
        o.a = r.below(3); o.b = r.chance(1, 6) ? 0 : r.below(70); o.c = r.chance(1, 4) ? 0 : r.below(40);
        o.d = r.below(16) | ((uint64_t)r.below(100000) << 8);
        if (r.chance(1, 3)) o.flags |= F_INPLACE;
        if ((o.kind == A_DEC || o.kind == S_DEC) && r.chance(1, 2)) o.flags |= F_CORRUPT;
    } else if (x < 82) {
        o = mk(H_ONESHOT, 0); o.a = small_len(r) % 300; o.b = r.below(8);
    } else {
        o = mk(B_PBKDF2, 0); o.a = r.below(80); o.b = r.below(80); o.c = r.below(40); o.d = r.below(4);
    }
    o.dseed = ds(r);
    return o;
}

void sched_knobs(Ctx &c, Plan &p, bool heavy) {
    Rng &r = c.r;
    static const uint32_t SP[] = {0, 20, 100, 500};
    static const uint32_t HP[] = {100, 300, 500, 50};
    p.switch_permille = heavy ? HP[r.below(4)] : SP[r.below(4)];
    uint32_t mask = 0;
    for (int k = 0; k < SK_COUNT; k++) if (r.chance(3, 4)) mask |= 1u << k;
    if (!mask) mask = 1u << SK_OP;
    p.site_mask = mask;
    p.sched_seed = r.next();
    p.arena_seed = r.next() | 1;
    p.paint_seed = r.next() | 1;
}

int pick_tasks(Rng &r, bool heavy) {
    uint32_t x = r.below(100);
    if (heavy) return x < 30 ? 2 : x < 60 ? 3 : x < 80 ? 4 : x < 92 ? 5 : 6;
    return x < 30 ? 1 : x < 62 ? 2 : x < 84 ? 3 : 4;
}

} // namespace

// C18 baseline: all transient prefixes of length <= 5 over {EINTR, EAGAIN} x 7 terminals
static const uint32_t TRNG_LONG_N[] = {7, 8, 9, 15, 16, 17, 31, 32, 33, 63, 64, 65, 100, 127, 128, 129, 255, 256, 257, 1000, 4096, 20000, 100000};
static const int TRNG_LONG = 23 * 2 * 2; // run length x {EINTR, EAGAIN} x {success, EIO}
static const int TRNG_ERRNOS = 131 * 2;  // every errno 1..133 except EINTR/EAGAIN as the permanent error, alone and after "EAGAIN EINTR"
static const int TRNG_BASELINE = 63 * 7 + TRNG_LONG + TRNG_ERRNOS;
// C16 baseline: all sequences over a 10-letter alphabet
static uint64_t c16_baseline_count(bool thorough) { return thorough ? 111110ULL : 11110ULL; }

uint64_t baseline_count(const std::string &engine, int armed, bool thorough) {
    if (engine == "trng") return TRNG_BASELINE;
    if (engine == "prng" && armed == C16) return c16_baseline_count(thorough);
    return 0;
}

static Plan trng_baseline_plan(uint64_t idx) {
    Plan p; p.engine = "trng";
    std::vector<int> s;
    if (idx >= 63 * 7 + (uint64_t)TRNG_LONG) { // errno sweep: what is not EINTR/EAGAIN must be treated as permanent
        uint64_t k = idx - 63 * 7 - TRNG_LONG;
        int e = 1 + (int)(k / 2), n = 0;
        for (int v = 1; v <= 133; v++) { if (v == EINTR || v == EAGAIN) continue; if (n == (int)(k / 2)) { e = v; break; } n++; }
        if (k & 1) { s.push_back(EAGAIN); s.push_back(EINTR); }
        s.push_back(e);
    } else if (idx >= 63 * 7) { // homogeneous long runs of one transient error: retry caps / counters of any small width show here
        uint64_t k = idx - 63 * 7;
        uint32_t n = TRNG_LONG_N[k / 4];
        for (uint32_t i = 0; i < n; i++) s.push_back((k & 1) ? EAGAIN : EINTR);
        s.push_back((k & 2) ? EIO : 0);
    } else {
        uint64_t pi = idx / 7, ti = idx % 7;
        // prefix index -> word: lengths 0..5
        uint64_t len = 0, base = 0;
        while (pi >= base + (1ULL << len)) { base += 1ULL << len; len++; }
        uint64_t w = pi - base;
        for (uint64_t i = 0; i < len; i++) s.push_back(((w >> i) & 1) ? EAGAIN : EINTR);
        static const int T[] = {0, EIO, ENOSYS, EPERM, EFAULT, EINVAL, ENOENT};
        s.push_back(T[ti]);
    }
    TaskPlan tp;
    Op o = mk(T_GENERATE, 0); o.dseed = mix2(idx, 77) | 1; o.os.push_back(s); tp.ops.push_back(o);
    Op i1 = mk(P_INIT, 0); i1.flags = F_SYSTEM; i1.a = idx % 5; i1.dseed = mix2(idx, 78) | 1; i1.os.push_back(s); tp.ops.push_back(i1);
    Op g1 = mk(P_GEN, 0); g1.a = 64; g1.dseed = mix2(idx, 79) | 1; tp.ops.push_back(g1);
    Op r1 = mk(P_RESEED, 0); r1.dseed = mix2(idx, 80) | 1; r1.os.push_back(s); tp.ops.push_back(r1);
    Op g2 = mk(P_GEN, 0); g2.a = 64; g2.dseed = mix2(idx, 81) | 1; tp.ops.push_back(g2);
    p.tasks.push_back(tp);
    p.seed = idx; p.arena_seed = mix2(idx, 1) | 1; p.paint_seed = mix2(idx, 2) | 1;
    p.os_stale_errno = (idx & 1); p.os_scribble = (idx & 2) != 0; p.fd_base = (int)(idx % 5);
    p.os_echo = (idx % 3) == 0; p.sleep_interrupt = (idx % 2) == 0; p.clock_step_ns = (idx % 4 == 0) ? 0 : (idx % 4 == 1) ? 1000000ULL : (idx % 4 == 2) ? 1000000000ULL : 60000000000ULL;
    p.clock_jump_s = (idx % 5 == 0) ? 86400LL * 3650 : (idx % 5 == 1) ? -3600 : (idx % 5 == 2) ? 301 : 0;
    return p;
}

static Plan c16_baseline_plan(uint64_t idx) {
    Plan p; p.engine = "prng";
    uint64_t len = 1, base = 0, pw = 10;
    while (idx >= base + pw) { base += pw; pw *= 10; len++; }
    uint64_t w = idx - base;
    TaskPlan tp;
    Op i0 = mk(P_INIT, 0); i0.a = 3; i0.dseed = mix2(idx, 5) | 1; tp.ops.push_back(i0);
    for (uint64_t i = 0; i < len; i++) {
        int letter = (int)(w % 10); w /= 10;
        Op o;
        switch (letter) {
        case 0: o = mk(P_GEN, 0); o.a = 1; break;
        case 1: o = mk(P_GEN, 0); o.a = 32; break;
        case 2: o = mk(P_GEN, 0); o.a = 64; break;
        case 3: o = mk(P_GEN, 0); o.a = 1056; break;
        case 4: o = mk(P_FEED, 0); o.a = 4; break;
        case 5: o = mk(P_RESEED, 0); break;
        case 6: o = mk(P_LIMIT, 0); o.a = 0; break;
        case 7: o = mk(P_LIMIT, 0); o.a = 33; break;
        case 8: o = mk(P_LIMIT, 0); o.a = 96; break;
        default: o = mk(P_LIMIT, 0); o.a = ~0ULL; break;
        }
        o.dseed = mix2(idx, 100 + i) | 1;
        tp.ops.push_back(o);
    }
    Op g = mk(P_GEN, 0); g.a = 1100; g.dseed = mix2(idx, 6) | 1; tp.ops.push_back(g);
    p.tasks.push_back(tp);
    p.seed = idx; p.arena_seed = mix2(idx, 1) | 1; p.paint_seed = mix2(idx, 2) | 1;
    return p;
}

Plan baseline_plan(const std::string &engine, int armed, uint64_t idx) {
    if (engine == "trng") return trng_baseline_plan(idx);
    (void)armed;
    return c16_baseline_plan(idx);
}

Plan generate_plan(const std::string &engine, int armed, uint64_t seed, bool thorough) {
    Rng r(mix2(seed, 0x9E11));
    Plan p;
    p.engine = engine; p.seed = seed;
    Ctx c{r, armed, thorough, false};
    bool heavy = (engine == "mix");
    int ntasks = pick_tasks(r, heavy);
    sched_knobs(c, p, heavy);
    c.faults = r.chance(1, 2);
    if (armed == C17 || armed == C18 || armed == C16) c.faults = r.chance(4, 5);
    p.os_stale_errno = r.chance(1, 3);
    p.os_scribble = r.chance(1, 3);
    p.os_echo = r.chance(1, 4);
    p.sleep_interrupt = r.chance(1, 2);
    { static const uint64_t STEP[] = {0, 1000ULL, 1000000ULL, 1000000000ULL, 60000000000ULL}; p.clock_step_ns = STEP[r.below(5)]; }
    if (r.chance(1, 4)) { static const int64_t J[] = {301, 3600, 86400LL * 3650, -3600, -86400LL * 365, 1LL << 31}; p.clock_jump_s = J[r.below(6)]; }
    p.fd_base = r.chance(1, 3) ? (int)r.below(3) : 3 + (int)r.below(60);   // open() may hand out 0, 1 or 2 when stdio is closed
    if (engine == "mix") p.alloc_fail = r.chance(1, 10);
    for (int ti = 0; ti < ntasks; ti++) {
        TaskPlan tp;
        int nobj = 1 + (int)r.below(3);
        uint32_t nops = 3 + r.below(thorough ? 30 : 22);
        GHash gh[NOBJ]; GHmac gm[NOBJ]; GHkdf gk[NOBJ]; GPrng gp[NOBJ];
        for (uint32_t k = 0; k < nops; k++) {
            int obj = (int)r.below((uint32_t)nobj);
            Op o;
            if (engine == "stream") {
                if (armed == C11) o = gen_hash(c, gh[obj], obj, false);
                else if (armed == C12) o = gen_hmac(c, gm[obj], obj, false);
                else if (armed == C13) o = gen_hkdf(c, gk[obj], obj, false);
                else { // C20: every family, erase-biased, plus the clean primitive
                    uint32_t x = r.below(100);
                    if (x < 22) o = gen_hash(c, gh[obj], obj, true);
                    else if (x < 42) o = gen_hmac(c, gm[obj], obj, true);
                    else if (x < 58) o = gen_hkdf(c, gk[obj], obj, true);
                    else if (x < 78) o = gen_prng(c, gp[obj], obj, true, false);
                    else if (x < 96) o = gen_clean(c);
                    else { o = mk(H_ONESHOT, 0); o.a = small_len(r) % 300; o.b = r.below(8); o.dseed = ds(r); }
                    if (o.kind == K_ONESHOT && o.a > 600) o.a = 8161;
                    if (o.kind == K_EXPAND && o.a > 60000) o.a = 8200;
                }
            } else if (engine == "prng") {
                o = gen_prng(c, gp[obj], obj, false, false);
            } else if (engine == "trng") {
                if (r.chance(1, 2)) o = gen_trng(c);
                else { o = gen_prng(c, gp[obj], obj, false, true); if (o.kind == P_GEN && o.a > 2100) o.a = o.a % 2100; }
            } else { // mix
                uint32_t x = r.below(100);
                if (x < 38) o = gen_stateless(c);
                else if (x < 52) o = gen_hash(c, gh[obj], obj, false);
                else if (x < 66) o = gen_hmac(c, gm[obj], obj, false);
                else if (x < 76) o = gen_hkdf(c, gk[obj], obj, false);
                else if (x < 94) o = gen_prng(c, gp[obj], obj, false, false);
                else if (x < 97) o = gen_clean(c);
                else o = gen_trng(c);
                // keep the mix workload light: it is executed three times
                if (o.kind == K_EXPAND && o.a > 200) o.a = o.a % 200;
                if (o.kind == K_ONESHOT && o.a > 200) o.a = (o.a > 8160) ? o.a : o.a % 200;
                if (o.kind == P_GEN && o.a > 1100) o.a = o.a % 1100;
                if ((o.kind == H_UPDATE || o.kind == M_UPDATE) && o.a > 300) o.a = o.a % 300;
                if (o.kind == M_ONESHOT && o.b > 300) o.b = o.b % 300;
            }
            // one op in sixteen on a stateful object finds it at a new address (decided by the data seed: no extra draw)
            if (o.kind >= H_INIT && o.kind <= P_DIRTY && o.kind != X_CLEAN && ((o.dseed >> 13) & 15) == 0) o.flags |= F_MOVED;
            tp.ops.push_back(o);
        }
        p.tasks.push_back(tp);
    }
    // rarely: a long run of bare extracts between two ordinary objects (any per-process serial number of 8 or 16 bits wraps)
    if (engine == "stream" && armed == C13 && r.chance(1, thorough ? 2500 : 9000)) {
        TaskPlan tp;
        Op e0 = mk(K_EXTRACT, 0); e0.a = 16; e0.b = 8; e0.c = 5; e0.dseed = ds(r); tp.ops.push_back(e0);
        Op x0 = mk(K_EXPAND, 0); x0.a = 32; x0.dseed = ds(r); tp.ops.push_back(x0);
        static const uint64_t W[] = {253, 254, 255, 256, 65533, 65534, 65535, 65536};
        Op e1 = mk(K_EXTRACT, 1); e1.a = 7; e1.b = 3; e1.d = W[r.below(8)] - 1; e1.dseed = ds(r); tp.ops.push_back(e1);
        Op e2 = mk(K_EXTRACT, 2); e2.a = 20; e2.b = 4; e2.c = 9; e2.dseed = ds(r); tp.ops.push_back(e2);
        Op x2 = mk(K_EXPAND, 2); x2.a = 64; x2.dseed = ds(r); tp.ops.push_back(x2);
        Op x3 = mk(K_EXPAND, 0); x3.a = 40; x3.dseed = ds(r); tp.ops.push_back(x3);
        p.tasks.clear();
        p.tasks.push_back(tp);
    }
    // thorough tier, rarely: one generator is driven past 1 MiB with the limit set above the 1 MiB cap
    if (engine == "prng" && ((thorough && armed == C15 && r.chance(1, 6000)) || (armed == C16 && r.chance(1, thorough ? 1500 : 12000)))) {
        TaskPlan tp;
        Op i0 = mk(P_INIT, 0); i0.a = 5; i0.dseed = ds(r); tp.ops.push_back(i0);
        static const uint64_t BIG[] = {1048577ULL, ~0ULL, 1048576ULL, 2000000ULL};
        Op l = mk(P_LIMIT, 0); l.a = BIG[r.below(4)]; l.dseed = ds(r); tp.ops.push_back(l);
        Op g0 = mk(P_GEN, 0); g0.a = 1048576 - 64 + 32 * r.below(4); g0.dseed = ds(r); tp.ops.push_back(g0);
        Op g1 = mk(P_GEN, 0); g1.a = 32 + r.below(200); g1.dseed = ds(r); tp.ops.push_back(g1);
        Op g2 = mk(P_GEN, 0); g2.a = 64; g2.dseed = ds(r); tp.ops.push_back(g2);
        if (p.tasks.size() >= (size_t)MAXTASK) p.tasks.pop_back();
        p.tasks.push_back(tp);
    }
    return p;
}
