// Minimal JSON value (parse + dump). Integers are kept as int64/uint64 exactly.
#pragma once
#include <cstdint>
#include <cstdio>
#include <cstdlib>
#include <cstring>
#include <map>
#include <string>
#include <utility>
#include <vector>

struct Json {
    enum T { NUL, BOOL, INT, UINT, DBL, STR, ARR, OBJ } t = NUL;
    bool b = false;
    int64_t i = 0;
    uint64_t u = 0;
    double d = 0;
    std::string s;
    std::vector<Json> a;
    std::vector<std::pair<std::string, Json>> o; // insertion-ordered

    Json() {}
    Json(bool v) : t(BOOL), b(v) {}
    Json(int v) : t(INT), i(v) {}
    Json(long v) : t(INT), i(v) {}
    Json(long long v) : t(INT), i(v) {}
    Json(unsigned v) : t(UINT), u(v) {}
    Json(unsigned long v) : t(UINT), u(v) {}
    Json(unsigned long long v) : t(UINT), u(v) {}
    Json(double v) : t(DBL), d(v) {}
    Json(const char *v) : t(STR), s(v) {}
    Json(const std::string &v) : t(STR), s(v) {}
    static Json arr() { Json j; j.t = ARR; return j; }
    static Json obj() { Json j; j.t = OBJ; return j; }

    Json &push(const Json &v) { t = ARR; a.push_back(v); return *this; }
    Json &set(const std::string &k, const Json &v) {
        t = OBJ;
        for (auto &kv : o) if (kv.first == k) { kv.second = v; return *this; }
        o.emplace_back(k, v);
        return *this;
    }
    const Json *get(const std::string &k) const {
        for (auto &kv : o) if (kv.first == k) return &kv.second;
        return nullptr;
    }
    bool has(const std::string &k) const { return get(k) != nullptr; }
    const Json &at(const std::string &k) const {
        static Json nul;
        const Json *p = get(k);
        return p ? *p : nul;
    }
    uint64_t as_u(uint64_t def = 0) const {
        if (t == UINT) return u;
        if (t == INT) return (uint64_t)i;
        if (t == DBL) return (uint64_t)d;
        if (t == BOOL) return b;
        return def;
    }
    int64_t as_i(int64_t def = 0) const {
        if (t == INT) return i;
        if (t == UINT) return (int64_t)u;
        if (t == DBL) return (int64_t)d;
        if (t == BOOL) return b;
        return def;
    }
    double as_d(double def = 0) const {
        if (t == DBL) return d;
        if (t == INT) return (double)i;
        if (t == UINT) return (double)u;
        return def;
    }
    bool as_b(bool def = false) const {
        if (t == BOOL) return b;
        if (t == INT) return i != 0;
        if (t == UINT) return u != 0;
        return def;
    }
    const std::string &as_s() const { return s; }

    static void esc(std::string &out, const std::string &v) {
        out += '"';
        for (unsigned char c : v) {
            switch (c) {
            case '"': out += "\\\""; break;
            case '\\': out += "\\\\"; break;
            case '\n': out += "\\n"; break;
            case '\t': out += "\\t"; break;
            case '\r': out += "\\r"; break;
            default:
                if (c < 0x20) { char b[8]; snprintf(b, sizeof b, "\\u%04x", c); out += b; }
                else out += (char)c;
            }
        }
        out += '"';
    }
    void dump(std::string &out, int indent = -1, int level = 0) const {
        auto nl = [&](int l) { if (indent >= 0) { out += '\n'; out.append((size_t)(indent * l), ' '); } };
        char buf[64];
        switch (t) {
        case NUL: out += "null"; break;
        case BOOL: out += b ? "true" : "false"; break;
        case INT: snprintf(buf, sizeof buf, "%lld", (long long)i); out += buf; break;
        case UINT: snprintf(buf, sizeof buf, "%llu", (unsigned long long)u); out += buf; break;
        case DBL: snprintf(buf, sizeof buf, "%.6g", d); out += buf; break;
        case STR: esc(out, s); break;
        case ARR: {
            out += '[';
            bool simple = true;
            for (auto &e : a) if (e.t == ARR || e.t == OBJ) simple = false;
            for (size_t k = 0; k < a.size(); k++) {
                if (k) out += ',';
                if (!simple) nl(level + 1);
                a[k].dump(out, indent, level + 1);
            }
            if (!simple && !a.empty()) nl(level);
            out += ']';
            break;
        }
        case OBJ: {
            out += '{';
            for (size_t k = 0; k < o.size(); k++) {
                if (k) out += ',';
                nl(level + 1);
                esc(out, o[k].first);
                out += indent >= 0 ? ": " : ":";
                o[k].second.dump(out, indent, level + 1);
            }
            if (!o.empty()) nl(level);
            out += '}';
            break;
        }
        }
    }
    std::string str(int indent = -1) const { std::string r; dump(r, indent); return r; }

    // ---- parser ----
    struct P {
        const char *p, *e; bool ok = true;
        void ws() { while (p < e && (*p == ' ' || *p == '\n' || *p == '\t' || *p == '\r')) p++; }
        Json val() {
            ws();
            if (p >= e) { ok = false; return Json(); }
            char c = *p;
            if (c == '{') {
                Json j = Json::obj(); p++; ws();
                if (p < e && *p == '}') { p++; return j; }
                while (ok) {
                    ws();
                    if (p >= e || *p != '"') { ok = false; break; }
                    std::string k = strv();
                    ws();
                    if (p >= e || *p != ':') { ok = false; break; }
                    p++;
                    Json v = val();
                    j.o.emplace_back(k, v);
                    ws();
                    if (p < e && *p == ',') { p++; continue; }
                    if (p < e && *p == '}') { p++; break; }
                    ok = false;
                }
                return j;
            }
            if (c == '[') {
                Json j = Json::arr(); p++; ws();
                if (p < e && *p == ']') { p++; return j; }
                while (ok) {
                    j.a.push_back(val());
                    ws();
                    if (p < e && *p == ',') { p++; continue; }
                    if (p < e && *p == ']') { p++; break; }
                    ok = false;
                }
                return j;
            }
            if (c == '"') return Json(strv());
            if (!strncmp(p, "true", 4)) { p += 4; return Json(true); }
            if (!strncmp(p, "false", 5)) { p += 5; return Json(false); }
            if (!strncmp(p, "null", 4)) { p += 4; return Json(); }
            // number
            const char *q = p; bool neg = false, isd = false;
            if (*q == '-') { neg = true; q++; }
            while (q < e && ((*q >= '0' && *q <= '9') || *q == '.' || *q == 'e' || *q == 'E' || *q == '+' || *q == '-')) {
                if (*q == '.' || *q == 'e' || *q == 'E') isd = true;
                q++;
            }
            if (q == p) { ok = false; return Json(); }
            std::string num(p, q); p = q;
            if (isd) return Json(strtod(num.c_str(), nullptr));
            if (neg) return Json((long long)strtoll(num.c_str(), nullptr, 10));
            return Json((unsigned long long)strtoull(num.c_str(), nullptr, 10));
        }
        std::string strv() {
            std::string r; p++;
            while (p < e && *p != '"') {
                if (*p == '\\' && p + 1 < e) {
                    p++;
                    switch (*p) {
                    case 'n': r += '\n'; break;
                    case 't': r += '\t'; break;
                    case 'r': r += '\r'; break;
                    case 'u': {
                        unsigned v = 0;
                        if (p + 4 < e) { char h[5] = {p[1], p[2], p[3], p[4], 0}; v = (unsigned)strtoul(h, nullptr, 16); p += 4; }
                        r += (char)v;
                        break;
                    }
                    default: r += *p;
                    }
                    p++;
                } else r += *p++;
            }
            if (p < e) p++; else ok = false;
            return r;
        }
    };
    static bool parse(const std::string &text, Json &out) {
        P ps{text.data(), text.data() + text.size()};
        out = ps.val();
        return ps.ok;
    }
};
