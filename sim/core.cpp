// Core of the simulator: names, plan (de)serialisation, memory, scheduler, yield points.
#include "sim.hpp"
#include <cerrno>
#include <sys/mman.h>

#ifdef SIM_ASAN
extern "C" {
void __asan_poison_memory_region(void const volatile *addr, size_t size);
void __asan_unpoison_memory_region(void const volatile *addr, size_t size);
void __sanitizer_start_switch_fiber(void **fake_stack_save, const void *bottom, size_t size);
void __sanitizer_finish_switch_fiber(void *fake_stack_save, const void **bottom_old, size_t *size_old);
}
#endif

World *g_world = nullptr;
std::vector<uint32_t> g_dict;
volatile uint64_t g_asan_reports = 0, g_asan_writes = 0;
char g_asan_first[256];
const char *g_variant = "prod";
const char *g_trng_flavor = "getrandom";

// ---------------------------------------------------------------- names
static const char *OPN[OP_KIND_COUNT] = {
    "NONE", "H_INIT", "H_REINIT", "H_UPDATE", "H_FINAL", "H_FREE", "H_DIRTY",
    "M_INIT", "M_REINIT", "M_UPDATE", "M_FINAL", "M_FREE", "M_DIRTY", "M_ONESHOT",
    "K_EXTRACT", "K_EXPAND", "K_FREE", "K_DIRTY", "K_ONESHOT", "X_CLEAN",
    "P_INIT", "P_GEN", "P_FEED", "P_RESEED", "P_LIMIT", "P_FREE", "P_DIRTY",
    "T_GENERATE", "A_ENC", "A_DEC", "S_ENC", "S_DEC", "H_ONESHOT", "B_PBKDF2"};
const char *op_name(int k) { return (k >= 0 && k < OP_KIND_COUNT) ? OPN[k] : "?"; }
int op_from_name(const std::string &s) {
    for (int i = 0; i < OP_KIND_COUNT; i++) if (s == OPN[i]) return i;
    return OP_NONE;
}
static const char *PRN[PR_COUNT] = {"NONE", "C11", "C12", "C13", "C15", "C16", "C17", "C18", "C19", "C20"};
const char *prop_name(int p) { return (p >= 0 && p < PR_COUNT) ? PRN[p] : "?"; }
int prop_from_name(const std::string &s) {
    for (int i = 0; i < PR_COUNT; i++) if (s == PRN[i]) return i;
    return PR_NONE;
}
static const char *CTN[CT_COUNT] = {
    "runs", "ops_executed", "ops_skipped_illegal_in_model", "events", "switches", "yield_points_enabled",
    "multitask_runs", "preempted_inside_library_call",
    "checks_armed_evaluated", "checks_unarmed_evaluated", "checks_unarmed_failed",
    "fault_delivery_short", "fault_delivery_zero", "delivery_full",
    "fault_os_eintr", "fault_os_eagain", "fault_os_permanent", "os_success", "fault_os_open_fail", "fault_os_short_read",
    "fault_os_stale_errno_on_success", "fault_os_scribble_on_failure", "fault_dirty_object_memory", "fault_abandon_midway",
    "fault_free_injected", "fault_alloc_fail_runs", "fault_stack_paint", "fault_os_echo_delivery", "fault_sleep_interrupted", "simulated_sleeps", "simulated_clock_reads", "fault_fork_identity_change", "fault_boundary_address_placement", "nested_generator_draws", "fault_object_moved_by_caller", "fault_wall_clock_jump", "probe_calls_through_c_caller_with_opaque_handles",
    "probe_hash_topup_and_continue", "probe_hash_topup_exact", "probe_hash_topup_short", "probe_hash_empty_update", "probe_hash_null_update",
    "probe_hash_finalize_checked", "probe_hash_reinit_mid_message", "probe_hash_init_after_free", "probe_hash_init_after_finalize",
    "probe_hmac_key_empty", "probe_hmac_key_lt64", "probe_hmac_key_eq64", "probe_hmac_key_gt64", "probe_hmac_finalize_checked", "probe_hmac_oneshot_checked",
    "probe_hmac_reinit_after_finalize", "probe_hmac_reinit_mid_message",
    "probe_hkdf_expand_crossed_8160", "probe_hkdf_expand_after_exhaustion", "probe_hkdf_oneshot_exactly_8160", "probe_hkdf_oneshot_refused", "probe_hkdf_expand_checked",
    "probe_hkdf_zero_length_expand", "probe_hkdf_empty_salt", "probe_hkdf_leftover_served",
    "probe_prng_autoreseed_mid_generate", "probe_prng_two_autoreseeds_one_call", "probe_prng_short_delivery_on_autoreseed", "probe_prng_carry_chain", "probe_prng_generate_checked",
    "probe_prng_limit_lowered_below_emitted", "probe_prng_feed_at_budget_edge", "probe_prng_long_feed_run", "probe_prng_generate_to_edge", "probe_prng_generated_past_1MiB",
    "probe_prng_init_failed_delivery", "probe_prng_reseed_failed_delivery", "probe_prng_null_callback_init", "probe_prng_system_source_init", "probe_prng_twin_flip_checked", "probe_prng_twin_equiv_checked",
    "probe_trng_calls", "probe_trng_success_after_retries", "probe_trng_permanent_error", "probe_trng_fd_opened",
    "probe_free_checked", "probe_free_never_initialised", "probe_free_mid_message", "probe_free_after_finalize", "probe_free_twice", "probe_clean_checked",
    "probe_mix_serial_compared_ops", "probe_mix_reorder_compared_ops", "probe_heap_calls_from_library", "asan_read_reports_unclaimed_observation", "probe_stack_residue_scans"};
const char *ctr_name(int c) { return (c >= 0 && c < CT_COUNT) ? CTN[c] : "?"; }

// ---------------------------------------------------------------- bytes
void fill_bytes(uint8_t *p, size_t n, uint64_t seed, uint64_t tag) {
    uint64_t s = mix2(seed, tag);
    size_t i = 0;
    while (i + 8 <= n) { uint64_t v = sm64(s); memcpy(p + i, &v, 8); i += 8; }
    if (i < n) { uint64_t v = sm64(s); memcpy(p + i, &v, n - i); }
}
uint64_t hash_bytes(const uint8_t *p, size_t n, uint64_t h) {
    h ^= n * 0x9E3779B97F4A7C15ULL;
    size_t i = 0;
    while (i + 8 <= n) { uint64_t v; memcpy(&v, p + i, 8); h = (h ^ v) * 0xff51afd7ed558ccdULL; h ^= h >> 32; i += 8; }
    uint64_t v = 0;
    if (i < n) memcpy(&v, p + i, n - i);
    h = (h ^ v) * 0xc4ceb9fe1a85ec53ULL; h ^= h >> 29;
    return h;
}
std::string hex(const uint8_t *p, size_t n) {
    static const char *d = "0123456789abcdef";
    std::string r;
    for (size_t i = 0; i < n; i++) { r += d[p[i] >> 4]; r += d[p[i] & 15]; }
    return r;
}

// ---------------------------------------------------------------- plan json
static Json op_to_json(const Op &o) {
    Json j = Json::obj();
    j.set("k", op_name(o.kind));
    if (o.obj) j.set("o", o.obj);
    if (o.flags) j.set("f", o.flags);
    if (o.a) j.set("a", (unsigned long long)o.a);
    if (o.b) j.set("b", (unsigned long long)o.b);
    if (o.c) j.set("c", (unsigned long long)o.c);
    if (o.d) j.set("d", (unsigned long long)o.d);
    if (o.dseed) j.set("ds", (unsigned long long)o.dseed);
    if (!o.del.empty()) { Json a = Json::arr(); for (int v : o.del) a.push(v); j.set("del", a); }
    if (!o.os.empty()) {
        Json a = Json::arr();
        for (auto &s : o.os) { Json b = Json::arr(); for (int v : s) b.push(v); a.push(b); }
        j.set("os", a);
    }
    return j;
}
static Op op_from_json(const Json &j) {
    Op o;
    o.kind = op_from_name(j.at("k").as_s());
    o.obj = (int)j.at("o").as_i();
    o.flags = (uint32_t)j.at("f").as_u();
    o.a = j.at("a").as_u(); o.b = j.at("b").as_u(); o.c = j.at("c").as_u(); o.d = j.at("d").as_u();
    o.dseed = j.at("ds").as_u();
    for (auto &v : j.at("del").a) o.del.push_back((int)v.as_i());
    for (auto &s : j.at("os").a) { std::vector<int> x; for (auto &v : s.a) x.push_back((int)v.as_i()); o.os.push_back(x); }
    return o;
}
Json plan_to_json(const Plan &p) {
    Json j = Json::obj();
    j.set("engine", p.engine);
    j.set("seed", (unsigned long long)p.seed);
    j.set("arena_seed", (unsigned long long)p.arena_seed);
    j.set("paint_seed", (unsigned long long)p.paint_seed);
    Json s = Json::obj();
    s.set("explicit", p.sched_explicit);
    s.set("seed", (unsigned long long)p.sched_seed);
    s.set("switch_permille", p.switch_permille);
    s.set("site_mask", p.site_mask);
    Json d = Json::arr();
    for (int v : p.sched) d.push(v);
    s.set("decisions", d);
    j.set("schedule", s);
    Json k = Json::obj();
    k.set("os_stale_errno", p.os_stale_errno);
    k.set("os_scribble", p.os_scribble);
    k.set("alloc_fail", p.alloc_fail);
    k.set("fd_base", p.fd_base);
    k.set("os_echo", p.os_echo);
    k.set("sleep_interrupt", p.sleep_interrupt);
    k.set("clock_step_ns", (unsigned long long)p.clock_step_ns);
    k.set("clock_jump_s", (long long)p.clock_jump_s);
    j.set("knobs", k);
    Json ts = Json::arr();
    for (auto &t : p.tasks) {
        Json ops = Json::arr();
        for (auto &o : t.ops) ops.push(op_to_json(o));
        ts.push(ops);
    }
    j.set("tasks", ts);
    return j;
}
bool plan_from_json(const Json &j, Plan &p) {
    if (j.t != Json::OBJ || !j.has("engine") || !j.has("tasks")) return false;
    p = Plan();
    p.engine = j.at("engine").as_s();
    p.seed = j.at("seed").as_u();
    p.arena_seed = j.at("arena_seed").as_u(1);
    p.paint_seed = j.at("paint_seed").as_u(1);
    const Json &s = j.at("schedule");
    p.sched_explicit = s.at("explicit").as_b();
    p.sched_seed = s.at("seed").as_u(1);
    p.switch_permille = (uint32_t)s.at("switch_permille").as_u();
    p.site_mask = s.has("site_mask") ? (uint32_t)s.at("site_mask").as_u() : 0xFFFFFFFFu;
    for (auto &v : s.at("decisions").a) p.sched.push_back((int)v.as_i());
    const Json &k = j.at("knobs");
    p.os_stale_errno = k.at("os_stale_errno").as_b();
    p.os_scribble = k.at("os_scribble").as_b();
    p.alloc_fail = k.at("alloc_fail").as_b();
    p.fd_base = k.has("fd_base") ? (int)k.at("fd_base").as_i() : 3;
    p.os_echo = k.at("os_echo").as_b();
    p.sleep_interrupt = k.at("sleep_interrupt").as_b();
    p.clock_step_ns = k.at("clock_step_ns").as_u();
    p.clock_jump_s = k.has("clock_jump_s") ? (int64_t)k.at("clock_jump_s").as_i() : 0;
    for (auto &t : j.at("tasks").a) {
        TaskPlan tp;
        for (auto &o : t.a) tp.ops.push_back(op_from_json(o));
        p.tasks.push_back(tp);
    }
    if (p.tasks.size() > (size_t)MAXTASK) return false;
    return true;
}
uint64_t plan_shape_hash(const Plan &p) {
    uint64_t h = hash_bytes((const uint8_t *)p.engine.data(), p.engine.size());
    h = mix2(h, p.switch_permille); h = mix2(h, p.site_mask); h = mix2(h, p.tasks.size());
    h = mix2(h, (p.os_stale_errno ? 1 : 0) | (p.os_scribble ? 2 : 0) | (p.alloc_fail ? 4 : 0) | (p.os_echo ? 8 : 0) | (p.sleep_interrupt ? 16 : 0) | (p.clock_step_ns << 8));
    h = mix2(h, (uint64_t)p.clock_jump_s);
    for (auto &t : p.tasks) {
        h = mix2(h, 0xABCD);
        for (auto &o : t.ops) {
            h = mix2(h, (uint64_t)o.kind | ((uint64_t)o.obj << 8) | ((uint64_t)o.flags << 16));
            h = mix2(h, o.a); h = mix2(h, o.b); h = mix2(h, o.c); h = mix2(h, o.d);
            for (int v : o.del) h = mix2(h, (uint64_t)v + 7);
            for (auto &s : o.os) { h = mix2(h, 0x05); for (int v : s) h = mix2(h, (uint64_t)v + 11); }
        }
    }
    return h;
}
std::vector<std::string> g_known_hard;
std::string op_sig(int kind, uint32_t f) {
    std::string s = op_name(kind);
    if (kind == P_INIT) { if (f & F_NULLCB) s += "+NULLCB"; if (f & F_SYSTEM) s += "+SYSTEM"; }
    return s;
}
bool plan_avoid_known(Plan &p) {
    bool any = false;
    for (auto &kf : g_known_hard) {
        size_t at = kf.find('@');
        if (at == std::string::npos) continue;
        bool hard = kf.find(":crash:") != std::string::npos || kf.find(":hang@") != std::string::npos || kf.find(":sanitizer") != std::string::npos;
        if (!hard) continue;
        std::string want = kf.substr(at + 1);
        for (auto &t : p.tasks) for (auto &o : t.ops) if (o.kind != OP_NONE && op_sig(o.kind, o.flags) == want) { o.kind = OP_NONE; any = true; }
    }
    return any;
}
size_t plan_op_count(const Plan &p) { size_t n = 0; for (auto &t : p.tasks) n += t.ops.size(); return n; }

// ---------------------------------------------------------------- memory
static inline uint8_t canary_byte(size_t i) { return (uint8_t)(0xC5 ^ (i * 7)); }
Slot slot_alloc(size_t size) {
    Slot s;
    s.size = size;
    void *p = nullptr;
    if (posix_memalign(&p, 64, FENCE + size + FENCE + 64) != 0) abort();
    s.base = (uint8_t *)p;
    return s;
}
void slot_free(Slot &s) {
    if (!s.base) return;
#ifdef SIM_ASAN
    __asan_unpoison_memory_region(s.base, FENCE + s.size + FENCE);
#endif
    free(s.base);
    s.base = nullptr;
}
void slot_fence_arm(const Slot &s) {
#ifdef SIM_ASAN
    __asan_unpoison_memory_region(s.base, FENCE);
    __asan_unpoison_memory_region(s.base + FENCE + s.size, FENCE);
#endif
    for (size_t i = 0; i < FENCE; i++) { s.base[i] = canary_byte(i); s.base[FENCE + s.size + i] = canary_byte(i + 64); }
#ifdef SIM_ASAN
    if (s.size % 8 == 0) {
        __asan_poison_memory_region(s.base, FENCE);
        __asan_poison_memory_region(s.base + FENCE + s.size, FENCE);
    }
#endif
}
bool slot_fence_ok(const Slot &s) {
#ifdef SIM_ASAN
    __asan_unpoison_memory_region(s.base, FENCE);
    __asan_unpoison_memory_region(s.base + FENCE + s.size, FENCE);
#endif
    bool ok = true;
    for (size_t i = 0; i < FENCE; i++)
        if (s.base[i] != canary_byte(i) || s.base[FENCE + s.size + i] != canary_byte(i + 64)) ok = false;
#ifdef SIM_ASAN
    if (s.size % 8 == 0) {
        __asan_poison_memory_region(s.base, FENCE);
        __asan_poison_memory_region(s.base + FENCE + s.size, FENCE);
    }
#endif
    return ok;
}
void slot_paint(const Slot &s, uint64_t seed, int style) {
    switch (style) {
    case 1: memset(s.p(), 0x00, s.size); break;
    case 2: memset(s.p(), 0xFF, s.size); break;
    default: fill_bytes(s.p(), s.size, seed, 0x5107); break;
    }
}
#ifdef SIM_ASAN
static const size_t BUF_TAIL = 0;
#else
static const size_t BUF_TAIL = 16;
#endif
Buf::Buf(size_t len_, size_t off_) : len(len_), off(off_) {
    base = (uint8_t *)malloc(off + len + BUF_TAIL + (BUF_TAIL ? 1 : 0) + ((off + len) ? 0 : 1));
    if (!base) abort();
    p = base + off;
    for (size_t i = 0; i < off; i++) base[i] = canary_byte(i);
    for (size_t i = 0; i < BUF_TAIL; i++) p[len + i] = canary_byte(i + 3);
}
Buf::~Buf() { free(base); }
bool Buf::tail_ok() const {
    for (size_t i = 0; i < off; i++) if (base[i] != canary_byte(i)) return false;
    for (size_t i = 0; i < BUF_TAIL; i++) if (p[len + i] != canary_byte(i + 3)) return false;
    return true;
}

// ---------------------------------------------------------------- scheduler
static const size_t STACK_SIZE = 256 * 1024;
static const size_t TRACE_CAP = 400000;
static uint8_t *g_stack_pool[MAXTASK];

#ifdef SIM_ASAN
static const void *g_main_bottom = nullptr;
static size_t g_main_size = 0;
#endif
static void switch_to_main(World &w) {
    int me = w.cur;
    Task &t = w.tasks[me];
#ifdef SIM_ASAN
    __sanitizer_start_switch_fiber(t.done ? nullptr : &t.fake_stack, g_main_bottom, g_main_size);
#endif
    w.cur = -1;
    swapcontext(&t.ctx, &w.main_ctx);
#ifdef SIM_ASAN
    __sanitizer_finish_switch_fiber(t.fake_stack, nullptr, nullptr);
#endif
}
static void switch_to_task(World &w, int i) {
    Task &t = w.tasks[i];
    w.cur = i;
#ifdef SIM_ASAN
    void *fake = nullptr;
    __sanitizer_start_switch_fiber(&fake, t.stack, t.stack_size);
#endif
    swapcontext(&w.main_ctx, &t.ctx);
#ifdef SIM_ASAN
    __sanitizer_finish_switch_fiber(fake, nullptr, nullptr);
#endif
    w.cur = -1;
}

static int next_decision(World &w) {
    if (w.strace.size() >= TRACE_CAP) return 0;
    int d = 0;
    if (w.plan->sched_explicit) {
        if (w.spos < w.plan->sched.size()) d = w.plan->sched[w.spos];
        w.spos++;
        if (d < 0) d = 0;
    } else {
        if (w.srng.below(1000) < w.plan->switch_permille) d = 1 + (int)w.srng.below((uint32_t)(w.ntasks > 1 ? w.ntasks - 1 : 1));
    }
    w.strace.push_back(d);
    return d;
}

void abort_run_from_task(World &w) {
    if (w.cur < 0) return;
    w.stop = true;
    w.tasks[w.cur].done = true;
    switch_to_main(w);
    // never resumed
    abort();
}

void report(World &w, int prop, const char *cls, const std::string &detail) {
    if (prop == w.armed) {
        if (!w.viol.set) {
            w.viol.set = true; w.viol.prop = prop; w.viol.cls = cls; w.viol.detail = detail;
            if (w.cur >= 0) { w.viol.task = w.cur; w.viol.op = w.ts[w.cur] ? w.ts[w.cur]->cur.index : -1; }
        }
        w.stop = true;
        if (w.cur >= 0 && !w.oracle) abort_run_from_task(w);
    } else if (w.stats) {
        w.stats->c[CT_UNARMED_FAIL]++;
    }
}
void check_pass(World &w, int prop) {
    if (!w.stats) return;
    if (prop == w.armed) w.stats->c[CT_CHECKS_ARMED]++; else w.stats->c[CT_CHECKS_UNARMED]++;
}

void sim_point(int site_kind, int site_id) {
    World *wp = g_world;
    if (!wp) return;
    World &w = *wp;
    if (w.cur < 0 || w.oracle) return;
    w.events++;
    w.ehash = mix2(w.ehash, ((uint64_t)site_id << 16) | ((uint64_t)site_kind << 8) | (uint64_t)w.cur);
    CurOp &co = w.ts[w.cur]->cur;
    if (++co.op_events > co.op_budget) {
        if (!w.viol.set) {
            w.viol.set = true; w.viol.prop = w.armed; w.viol.cls = "hang";
            w.viol.detail = "a library call made more than " + std::to_string((unsigned long long)co.op_budget) + " cross-module calls, far beyond what its arguments can need: it does not return";
            w.viol.task = w.cur; w.viol.op = w.ts[w.cur] ? w.ts[w.cur]->cur.index : -1;
        }
        abort_run_from_task(w);
    }
    if (w.serial || w.ntasks < 2) return;
    if (!((w.plan->site_mask >> site_kind) & 1)) return;
    if (w.stats) w.stats->c[CT_YIELDS_ENABLED]++;
    int d = next_decision(w);
    if (d == 0) return;
    if (w.stats) {
        w.stats->site_preempt[site_kind]++;
        if (site_kind != SK_OP) w.stats->c[CT_PREEMPT_INSIDE_CALL]++;
    }
    w.pending = d;
    w.last_site = site_kind;
    switch_to_main(w);
}

static void __attribute__((noinline)) paint_stack(World &w, Task &t, uint64_t seed) {
#ifndef SIM_ASAN
    uint8_t *sp = (uint8_t *)__builtin_frame_address(0);
    uint8_t *hi = sp - 768;
    uint8_t *lo = sp - 768 - 6144;
    if (lo < t.stack + 1024) lo = t.stack + 1024;
    if (hi <= lo) return;
    uint64_t s = seed;
    volatile uint64_t *q = (volatile uint64_t *)(((uintptr_t)lo + 7) & ~(uintptr_t)7);
    volatile uint64_t *e = (volatile uint64_t *)((uintptr_t)hi & ~(uintptr_t)7);
    while (q < e) { s = s * 6364136223846793005ULL + 1442695040888963407ULL; *q++ = s; }
    if (w.stats) w.stats->c[CT_F_STACK_PAINT]++;
#else
    (void)w; (void)t; (void)seed;
#endif
}

static void task_main(int idx) {
    World &w = *g_world;
#ifdef SIM_ASAN
    __sanitizer_finish_switch_fiber(nullptr, &g_main_bottom, &g_main_size);
#endif
    Task &t = w.tasks[idx];
    TaskState &ts = *w.ts[idx];
    const std::vector<Op> &ops = w.plan->tasks[idx].ops;
    while (!w.stop) {
        int i;
        if (w.serial) {
            i = w.serial_op;
            if (i < 0 || i >= (int)ops.size()) break;
        } else {
            if (t.next_op >= (int)ops.size()) break;
            ts.cur.index = t.next_op;
            sim_point(SK_OP, 0);
            if (w.stop) break;
            i = t.next_op;
        }
        // half of the ops run over painted stack, the other half over whatever the previous call left there
        if (mix2(w.plan->paint_seed, ((uint64_t)idx << 20) | (uint64_t)i) & 1)
            paint_stack(w, t, mix2(w.plan->paint_seed ^ w.world_id, ((uint64_t)idx << 20) | (uint64_t)i));
        exec_op(w, ts, ops[i], i);
        t.next_op = i + 1;
        if (w.serial) switch_to_main(w);
    }
    t.done = true;
    // final switch out; this context is never resumed
#ifdef SIM_ASAN
    __sanitizer_start_switch_fiber(nullptr, g_main_bottom, g_main_size);
#endif
    w.cur = -1;
    setcontext(&w.main_ctx);
    abort();
}

static void task_entry(int idx) { task_main(idx); }

void world_run(World &w) {
    const Plan &p = *w.plan;
    w.ntasks = (int)p.tasks.size();
    g_world = &w;
    w.srng = Rng(mix2(p.sched_seed, 0x5C4ED));
    for (int i = 0; i < w.ntasks; i++) {
        Task &t = w.tasks[i];
        if (!g_stack_pool[i]) {
            // a guard page below each task stack: unbounded recursion in the library is a clean SIGSEGV, not silent
            // corruption of the harness heap
            void *m = mmap(nullptr, STACK_SIZE + 4096, PROT_READ | PROT_WRITE, MAP_PRIVATE | MAP_ANONYMOUS, -1, 0);
            if (m == MAP_FAILED) abort();
            mprotect(m, 4096, PROT_NONE);
            g_stack_pool[i] = (uint8_t *)m + 4096;
        }
        t.stack = g_stack_pool[i];
        t.stack_size = STACK_SIZE;
        t.done = p.tasks[i].ops.empty();
        t.next_op = 0;
        t.fake_stack = nullptr;
        getcontext(&t.ctx);
        t.ctx.uc_stack.ss_sp = t.stack;
        t.ctx.uc_stack.ss_size = t.stack_size;
        t.ctx.uc_link = nullptr;
        makecontext(&t.ctx, (void (*)())task_entry, 1, i);
    }
    auto runnable = [&](std::vector<int> &r) { r.clear(); for (int i = 0; i < w.ntasks; i++) if (!w.tasks[i].done) r.push_back(i); };
    std::vector<int> r;
    if (w.serial) {
        // explicit global order of (task, op); each switch-in executes exactly one op
        for (int e : w.order) {
            if (w.stop) break;
            int ti = e >> 16;
            if (ti >= w.ntasks || w.tasks[ti].done) continue;
            w.serial_op = e & 0xFFFF;
            switch_to_task(w, ti);
        }
    } else {
        runnable(r);
        int curi = -1;
        if (!r.empty()) {
            int d = w.ntasks > 1 ? next_decision(w) : 0;
            curi = r[(size_t)d % r.size()];
        }
        while (curi >= 0 && !w.stop) {
            w.pending = 0;
            switch_to_task(w, curi);
            if (w.stop) break;
            runnable(r);
            if (r.empty()) break;
            int next;
            if (w.tasks[curi].done) {
                int d = r.size() > 1 ? next_decision(w) : 0;
                next = r[(size_t)d % r.size()];
            } else {
                size_t pos = 0;
                for (size_t k = 0; k < r.size(); k++) if (r[k] == curi) pos = k;
                next = r[(pos + (size_t)w.pending) % r.size()];
            }
            if (next != curi) {
                w.switches++;
                w.shash = mix2(w.shash, ((uint64_t)w.last_site << 8) | (uint64_t)next);
            }
            curi = next;
        }
    }
    g_world = nullptr;
}
