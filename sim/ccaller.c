/* A caller written in C that keeps library objects behind opaque `void *` handles, as C programs commonly do
 * (a context pointer in a callback record, a member of a generic container). For a real function the call is the same
 * as with a typed pointer; if the public header ever turns a function into a macro, the macro is expanded here with
 * the handle's static type, not with the object's. Compiled against the tree's own TinyJAMBU.h as gnu99.
 * tools/build.sh falls back to typed handles (-DSIM_TYPED_HANDLES) if this form does not compile against the tree
 * (a macro that dereferences its argument is legal and only usable with typed pointers). */
#include "TinyJAMBU.h"
#include <stddef.h>

#ifdef SIM_TYPED_HANDLES
#define HANDLE(T) T *
const int sim_c_handles_opaque = 0;
#else
#define HANDLE(T) void *
const int sim_c_handles_opaque = 1;
#endif

void sim_c_hash_free(void *obj) { HANDLE(tinyjambu_hash_state_t) h = obj; tinyjambu_hash_free(h); }
void sim_c_hmac_free(void *obj) { HANDLE(tinyjambu_hmac_state_t) h = obj; tinyjambu_hmac_free(h); }
void sim_c_hkdf_free(void *obj) { HANDLE(tinyjambu_hkdf_state_t) h = obj; tinyjambu_hkdf_free(h); }
void sim_c_prng_free(void *obj) { HANDLE(tinyjambu_prng_state_t) h = obj; tinyjambu_prng_free(h); }
/* size held in a wider type by the caller, as a size_t member of a record would be */
void sim_c_clean(void *buf, size_t size) { tinyjambu_clean(buf, size); }
