// Command line: batch search over seeds with forked workers, minimisation, replay.
#include "sim.hpp"
#include <algorithm>
#include <cerrno>
#include <csignal>
#include <ctime>
#include <fcntl.h>
#include <functional>
#include <map>
#include <sys/mman.h>
#include <sys/stat.h>
#include <sys/wait.h>
#include <unistd.h>

Beacon *g_beacon = nullptr;
extern "C" { extern const char *sim_variant_name; extern const char *sim_trng_flavor_name; }

extern "C" __attribute__((used, visibility("default"))) const char *__asan_default_options() {
    return "exitcode=77:halt_on_error=0:detect_leaks=0:abort_on_error=0:handle_segv=0:handle_sigbus=0:handle_abort=0:handle_sigfpe=0:handle_sigill=0:allocator_may_return_null=1:detect_stack_use_after_return=0";
}
extern "C" __attribute__((used, visibility("default"))) const char *__ubsan_default_options() {
    return "exitcode=77:halt_on_error=1:print_stacktrace=1";
}

namespace {

double now_s() { struct timespec ts; clock_gettime(CLOCK_MONOTONIC, &ts); return (double)ts.tv_sec + 1e-9 * (double)ts.tv_nsec; }

struct Args {
    std::string mode, engine = "stream", prop = "C11", tier = "quick", out, replay_dir = "replays", dump_hashes, file, tmpdir = "build/tmp", tree = "";
    uint64_t seed = 1, runs = 1000;
    int jobs = 16;
    double time_cap = 0;
    std::vector<std::string> known;
    bool no_baseline = false;
    bool keep_going = false;
    bool isolate = false;   // every run in its own forked process (no process history shared between runs)
};

std::string sig_name(int s) {
    switch (s) {
    case SIGSEGV: return "SIGSEGV"; case SIGBUS: return "SIGBUS"; case SIGFPE: return "SIGFPE"; case SIGILL: return "SIGILL";
    case SIGABRT: return "SIGABRT"; case SIGKILL: return "SIGKILL"; case SIGTRAP: return "SIGTRAP";
    default: return "SIG" + std::to_string(s);
    }
}

bool read_file(const std::string &p, std::string &out) {
    FILE *f = fopen(p.c_str(), "rb");
    if (!f) return false;
    char buf[65536]; size_t n;
    out.clear();
    while ((n = fread(buf, 1, sizeof buf, f)) > 0) out.append(buf, n);
    fclose(f);
    return true;
}
bool write_file(const std::string &p, const std::string &s) {
    FILE *f = fopen(p.c_str(), "wb");
    if (!f) return false;
    fwrite(s.data(), 1, s.size(), f);
    fclose(f);
    return true;
}

uint64_t run_seed(const Args &a, uint64_t i) {
    uint64_t h = hash_bytes((const uint8_t *)a.engine.data(), a.engine.size(), 0xE);
    h = mix2(h, hash_bytes((const uint8_t *)a.prop.data(), a.prop.size(), 0xF));
    h = mix2(h, hash_bytes((const uint8_t *)g_variant, strlen(g_variant), 0x10));
    return mix2(mix2(a.seed, h), i);
}
Plan plan_for_index(const Args &a, int armed, uint64_t i, uint64_t nbase) {
    Plan p = i < nbase ? baseline_plan(a.engine, armed, i) : generate_plan(a.engine, armed, run_seed(a, i - nbase), a.tier == "thorough");
    plan_avoid_known(p);
    return p;
}

// signature of a violation for the known-findings list: "<prop>:<class>@<OPKIND>[+FLAG...]"
std::string flags_sig(int kind, uint32_t f) { return op_sig(kind, f); }

struct ChildResult {
    bool ok = false;          // child produced a result
    bool violated = false;
    int prop = PR_NONE;
    std::string cls, detail, sig;
    uint64_t ehash = 0;
    int task = -1, op = -1;
    std::vector<int> strace;
    std::string err_text;
};

std::string viol_sig(const Plan &p, int prop, const std::string &cls, int task, int op) {
    std::string s = std::string(prop_name(prop)) + ":" + cls;
    if (task >= 0 && (size_t)task < p.tasks.size() && op >= 0 && (size_t)op < p.tasks[(size_t)task].ops.size())
        s += "@" + flags_sig(p.tasks[(size_t)task].ops[(size_t)op].kind, p.tasks[(size_t)task].ops[(size_t)op].flags);
    return s;
}

// run one plan in a forked child (crashes, sanitizer aborts and hangs become results)
std::string g_tmpdir = "build/tmp";
int g_child_seq = 0;
ChildResult run_child(const Plan &p, int armed, double timeout_s = 120) {
    ChildResult cr;
    int fd[2];
    if (pipe(fd) != 0) return cr;
    Beacon *b = (Beacon *)mmap(nullptr, sizeof(Beacon), PROT_READ | PROT_WRITE, MAP_SHARED | MAP_ANONYMOUS, -1, 0);
    memset((void *)b, 0, sizeof(Beacon));
    fflush(stdout); fflush(stderr);
    mkdir("build", 0777); mkdir(g_tmpdir.c_str(), 0777);
    char errpath[256];
    snprintf(errpath, sizeof errpath, "%s/child-%d-%d.err", g_tmpdir.c_str(), (int)getpid(), g_child_seq++);
    pid_t pid = fork();
    if (pid == 0) {
        close(fd[0]);
        g_beacon = b;
        int efd = open(errpath, O_WRONLY | O_CREAT | O_TRUNC, 0644);
        if (efd >= 0) { dup2(efd, 2); close(efd); }
        Stats st;
        RunResult rr = execute_plan(p, armed, st);
        Json j = Json::obj();
        j.set("violated", rr.viol.set);
        j.set("prop", rr.viol.prop);
        j.set("cls", rr.viol.cls);
        j.set("detail", rr.viol.detail);
        j.set("ehash", (unsigned long long)rr.ehash);
        j.set("task", rr.viol.task); j.set("op", rr.viol.op);
        Json tr = Json::arr();
        for (int d : rr.strace) tr.push(d);
        j.set("strace", tr);
        std::string s = j.str();
        size_t off = 0;
        while (off < s.size()) { ssize_t n = write(fd[1], s.data() + off, s.size() - off); if (n <= 0) break; off += (size_t)n; }
        close(fd[1]);
        _exit(0);
    }
    close(fd[1]);
    std::string data;
    double t0 = now_s();
    int flags = fcntl(fd[0], F_GETFL, 0);
    fcntl(fd[0], F_SETFL, flags | O_NONBLOCK);
    bool timed_out = false, eof = false;
    int status = 0; bool reaped = false;
    while (!eof) {
        char buf[65536];
        ssize_t n = read(fd[0], buf, sizeof buf);
        if (n > 0) { data.append(buf, (size_t)n); continue; }
        if (n == 0) { eof = true; break; }
        if (errno != EAGAIN && errno != EINTR) break;
        if (!reaped && waitpid(pid, &status, WNOHANG) == pid) { reaped = true; }
        if (reaped) { // drain
            while ((n = read(fd[0], buf, sizeof buf)) > 0) data.append(buf, (size_t)n);
            break;
        }
        if (now_s() - t0 > timeout_s) { timed_out = true; kill(pid, SIGKILL); break; }
        usleep(500);
    }
    close(fd[0]);
    if (!reaped) waitpid(pid, &status, 0);
    int bk = b->op_kind; uint32_t bf = b->op_flags;
    munmap((void *)b, sizeof(Beacon));
    read_file(errpath, cr.err_text);
    unlink(errpath);
    if (timed_out) {
        cr.ok = true; cr.violated = true; cr.prop = armed; cr.cls = "hang"; cr.detail = "run did not finish within the wall-clock watchdog";
        cr.sig = std::string(prop_name(armed)) + ":hang@" + flags_sig(bk, bf);
        return cr;
    }
    if (WIFSIGNALED(status)) {
        cr.ok = true; cr.violated = true; cr.prop = armed; cr.cls = "crash:" + sig_name(WTERMSIG(status));
        cr.detail = "process died with " + sig_name(WTERMSIG(status)) + " while executing " + flags_sig(bk, bf);
        cr.sig = std::string(prop_name(armed)) + ":" + cr.cls + "@" + flags_sig(bk, bf);
        return cr;
    }
    if (WIFEXITED(status) && WEXITSTATUS(status) == 77) {
        // a wild WRITE changes somebody else's bytes (the claimed properties speak about that); an over-READ is memory
        // safety only (C06, not claimed) and is reported as an observation, never as a violation
        bool wr = cr.err_text.find("WRITE of size") != std::string::npos;
        bool rd = cr.err_text.find("READ of size") != std::string::npos;
        cr.ok = true; cr.violated = true; cr.prop = armed; cr.cls = wr ? "sanitizer-write" : rd ? "sanitizer-read" : "sanitizer-other";
        size_t pos = cr.err_text.find("ERROR: AddressSanitizer");
        std::string head = pos == std::string::npos ? "" : cr.err_text.substr(pos, std::min<size_t>(200, cr.err_text.find('\n', pos) == std::string::npos ? 200 : cr.err_text.find('\n', pos) - pos));
        cr.detail = "AddressSanitizer report while executing " + flags_sig(bk, bf) + ": " + head;
        cr.sig = std::string(prop_name(armed)) + ":" + cr.cls + "@" + flags_sig(bk, bf);
        return cr;
    }
    Json j;
    if (!Json::parse(data, j) || j.t != Json::OBJ) return cr;
    cr.ok = true;
    cr.violated = j.at("violated").as_b();
    cr.prop = (int)j.at("prop").as_i();
    cr.cls = j.at("cls").as_s(); cr.detail = j.at("detail").as_s();
    cr.ehash = j.at("ehash").as_u();
    cr.task = (int)j.at("task").as_i(-1); cr.op = (int)j.at("op").as_i(-1);
    for (auto &v : j.at("strace").a) cr.strace.push_back((int)v.as_i());
    if (cr.violated) cr.sig = viol_sig(p, cr.prop, cr.cls, cr.task, cr.op);
    return cr;
}

// Re-run, in one fresh child process, the run indices first, first+step, ... <= upto (what one batch worker executed).
// Used when a violation does not reproduce from its plan alone: a library that keeps writable state between calls
// makes a run depend on the runs before it in the same process.
struct SeqResult { bool ok = false, violated = false; int prop = PR_NONE; std::string cls, detail; int64_t index = -1; };
SeqResult run_child_seq(const Args &a, int armed, uint64_t first, uint64_t step, uint64_t upto, uint64_t nbase, double timeout_s = 900) {
    SeqResult sr;
    int fd[2];
    if (pipe(fd) != 0) return sr;
    Beacon *b = (Beacon *)mmap(nullptr, sizeof(Beacon), PROT_READ | PROT_WRITE, MAP_SHARED | MAP_ANONYMOUS, -1, 0);
    memset((void *)b, 0, sizeof(Beacon));
    b->run = -1;
    fflush(stdout); fflush(stderr);
    pid_t pid = fork();
    if (pid == 0) {
        close(fd[0]);
        g_beacon = b;
        int dn = open("/dev/null", O_WRONLY); if (dn >= 0) { dup2(dn, 2); close(dn); }
        Stats st;
        Json j = Json::obj();
        j.set("violated", false);
        for (uint64_t i = first; i <= upto; i += step) {
            b->run = (int64_t)i;
            Plan p = plan_for_index(a, armed, i, nbase);
            RunResult rr = execute_plan(p, armed, st);
            if (rr.viol.set) {
                j.set("violated", true); j.set("prop", rr.viol.prop); j.set("cls", rr.viol.cls); j.set("detail", rr.viol.detail); j.set("index", (long long)i);
                break;
            }
        }
        std::string s = j.str();
        ssize_t n = write(fd[1], s.data(), s.size()); (void)n;
        close(fd[1]);
        _exit(0);
    }
    close(fd[1]);
    std::string data; char buf[4096];
    double t0 = now_s();
    int flags = fcntl(fd[0], F_GETFL, 0); fcntl(fd[0], F_SETFL, flags | O_NONBLOCK);
    int status = 0; bool reaped = false, timed_out = false;
    for (;;) {
        ssize_t n = read(fd[0], buf, sizeof buf);
        if (n > 0) { data.append(buf, (size_t)n); continue; }
        if (n == 0) break;
        if (!reaped && waitpid(pid, &status, WNOHANG) == pid) { reaped = true; while ((n = read(fd[0], buf, sizeof buf)) > 0) data.append(buf, (size_t)n); break; }
        if (now_s() - t0 > timeout_s) { timed_out = true; kill(pid, SIGKILL); break; }
        usleep(1000);
    }
    close(fd[0]);
    if (!reaped) waitpid(pid, &status, 0);
    int64_t at = b->run;
    munmap((void *)b, sizeof(Beacon));
    if (timed_out) { sr.ok = sr.violated = true; sr.prop = armed; sr.cls = "hang"; sr.index = at; sr.detail = "sequence did not finish"; return sr; }
    if (WIFSIGNALED(status)) { sr.ok = sr.violated = true; sr.prop = armed; sr.cls = "crash:" + sig_name(WTERMSIG(status)); sr.index = at; sr.detail = "process died with " + sig_name(WTERMSIG(status)); return sr; }
    Json j;
    if (!Json::parse(data, j) || j.t != Json::OBJ) return sr;
    sr.ok = true; sr.violated = j.at("violated").as_b();
    sr.prop = (int)j.at("prop").as_i(); sr.cls = j.at("cls").as_s(); sr.detail = j.at("detail").as_s(); sr.index = j.at("index").as_i(-1);
    return sr;
}

// ------------------------------------------------------------------ minimiser
struct Minimiser {
    int armed; std::string cls; int execs = 0, budget = 2500;
    bool fails(const Plan &p) {
        if (execs >= budget) return false;
        execs++;
        ChildResult r = run_child(p, armed, 60);
        return r.ok && r.violated && r.prop == armed && r.cls == cls;
    }
    static size_t nops(const Plan &p) { return plan_op_count(p); }
    // remove ops [from, from+len) of the flattened op list
    static Plan without(const Plan &p, size_t from, size_t len) {
        Plan q = p; size_t k = 0;
        for (auto &t : q.tasks) {
            std::vector<Op> keep;
            for (auto &o : t.ops) { if (k < from || k >= from + len) keep.push_back(o); k++; }
            t.ops = keep;
        }
        return q;
    }
    void run(Plan &p) {
        bool progress = true;
        while (progress && execs < budget) {
            progress = false;
            // 1. whole tasks
            for (size_t t = 0; t < p.tasks.size() && p.tasks.size() > 1;) {
                Plan q = p; q.tasks.erase(q.tasks.begin() + (long)t);
                if (fails(q)) { p = q; progress = true; } else t++;
            }
            // 2. ddmin over ops
            size_t n = nops(p);
            for (size_t chunk = std::max<size_t>(1, n / 2); chunk >= 1; chunk /= 2) {
                for (size_t from = 0; from < nops(p);) {
                    Plan q = without(p, from, chunk);
                    if (nops(q) < nops(p) && fails(q)) { p = q; progress = true; } else from += chunk;
                }
                if (chunk == 1) break;
            }
            // drop empty tasks
            {
                Plan q = p;
                q.tasks.erase(std::remove_if(q.tasks.begin(), q.tasks.end(), [](const TaskPlan &t) { return t.ops.empty(); }), q.tasks.end());
                if (q.tasks.size() != p.tasks.size() && !q.tasks.empty() && fails(q)) { p = q; progress = true; }
            }
            // 3. per-op argument shrinking
            for (size_t t = 0; t < p.tasks.size(); t++) {
                for (size_t i = 0; i < p.tasks[t].ops.size(); i++) {
                    auto try_mod = [&](const std::function<bool(Op &)> &f) {
                        Plan q = p;
                        if (!f(q.tasks[t].ops[i])) return;
                        if (fails(q)) { p = q; progress = true; }
                    };
                    for (int field = 0; field < 4; field++) {
                        for (int pass = 0; pass < 12; pass++) {
                            uint64_t cur = field == 0 ? p.tasks[t].ops[i].a : field == 1 ? p.tasks[t].ops[i].b : field == 2 ? p.tasks[t].ops[i].c : p.tasks[t].ops[i].d;
                            if (cur == 0) break;
                            uint64_t cand[3] = {0, cur / 2, cur - 1};
                            bool any = false;
                            for (uint64_t v : cand) {
                                if (v >= cur) continue;
                                Plan q = p; Op &o = q.tasks[t].ops[i];
                                (field == 0 ? o.a : field == 1 ? o.b : field == 2 ? o.c : o.d) = v;
                                if (fails(q)) { p = q; progress = true; any = true; break; }
                            }
                            if (!any) break;
                        }
                    }
                    try_mod([](Op &o) { if (o.del.empty()) return false; o.del.clear(); return true; });
                    try_mod([](Op &o) { if (o.os.empty()) return false; o.os.clear(); return true; });
                    for (size_t k = 0; k < p.tasks[t].ops[i].del.size(); k++)
                        try_mod([k](Op &o) { if (k >= o.del.size() || o.del[k] == 32) return false; o.del[k] = 32; return true; });
                    for (size_t k = 0; k < p.tasks[t].ops[i].os.size(); k++) {
                        try_mod([k](Op &o) { if (k >= o.os.size() || o.os[k].empty()) return false; o.os[k].clear(); return true; });
                        // ddmin over the script's elements (scripts can be thousands of transient errors long)
                        for (size_t chunk = std::max<size_t>(1, (k < p.tasks[t].ops[i].os.size() ? p.tasks[t].ops[i].os[k].size() : 0) / 2); chunk >= 1; chunk /= 2) {
                            for (size_t e = 0; k < p.tasks[t].ops[i].os.size() && e < p.tasks[t].ops[i].os[k].size();) {
                                Plan q = p; auto &s = q.tasks[t].ops[i].os[k];
                                s.erase(s.begin() + (long)e, s.begin() + (long)std::min(s.size(), e + chunk));
                                if (fails(q)) { p = q; progress = true; } else e += chunk;
                            }
                            if (chunk == 1) break;
                        }
                    }
                    for (uint32_t bit : {F_TWICE, F_INPLACE, F_NULLPTR, F_NOCUSTOM, F_CORRUPT})
                        try_mod([bit](Op &o) { if (!(o.flags & bit)) return false; o.flags &= ~bit; return true; });
                    try_mod([](Op &o) { if (o.flags & F_ZERODATA) return false; o.flags |= F_ZERODATA; return true; });
                }
            }
            // 4. schedule
            if (p.sched_explicit) {
                while (!p.sched.empty() && p.sched.back() == 0) p.sched.pop_back();
                for (size_t keep = 0; keep < p.sched.size();) { // truncate
                    Plan q = p; q.sched.resize(keep);
                    if (fails(q)) { p = q; progress = true; break; }
                    keep = keep ? keep * 2 : 1;
                }
                for (size_t chunk = std::max<size_t>(1, p.sched.size() / 2); chunk >= 1; chunk /= 2) {
                    for (size_t from = 0; from < p.sched.size(); from += chunk) {
                        Plan q = p; bool any = false;
                        for (size_t k = from; k < std::min(p.sched.size(), from + chunk); k++) if (q.sched[k]) { q.sched[k] = 0; any = true; }
                        if (any && fails(q)) { p = q; progress = true; }
                    }
                    if (chunk == 1) break;
                }
                while (!p.sched.empty() && p.sched.back() == 0) p.sched.pop_back();
            }
            // 5. knobs toward defaults
            auto try_plan = [&](const std::function<bool(Plan &)> &f) { Plan q = p; if (f(q) && fails(q)) { p = q; progress = true; } };
            try_plan([](Plan &q) { if (!q.os_stale_errno) return false; q.os_stale_errno = false; return true; });
            try_plan([](Plan &q) { if (!q.os_scribble) return false; q.os_scribble = false; return true; });
            try_plan([](Plan &q) { if (!q.alloc_fail) return false; q.alloc_fail = false; return true; });
            try_plan([](Plan &q) { if (q.fd_base == 3) return false; q.fd_base = 3; return true; });
        }
    }
};

bool single_caller_single_object(const Plan &p) {
    if (p.tasks.size() != 1) return false;
    int key = -1;
    for (auto &o : p.tasks[0].ops) {
        int fam;
        switch (o.kind) {
        case H_INIT: case H_REINIT: case H_UPDATE: case H_FINAL: case H_FREE: case H_DIRTY: fam = 1; break;
        case M_INIT: case M_REINIT: case M_UPDATE: case M_FINAL: case M_FREE: case M_DIRTY: fam = 2; break;
        case K_EXTRACT: case K_EXPAND: case K_FREE: case K_DIRTY: fam = 3; break;
        case P_INIT: case P_GEN: case P_FEED: case P_RESEED: case P_LIMIT: case P_FREE: case P_DIRTY: fam = 4; break;
        default: fam = 0;
        }
        int k = fam ? fam * 16 + (o.obj % NOBJ) : 1000;
        if (fam == 0 && p.tasks[0].ops.size() > 1) return false;
        if (key >= 0 && k != key) return false;
        key = k;
    }
    return true;
}

// ------------------------------------------------------------------ batch
struct Shm {
    volatile int64_t stop_after;   // workers skip run indices above this
    volatile int64_t abort_all;
    Beacon w[64];
    volatile int64_t viol_index[64];
};

struct WorkerOut { Stats st; uint64_t digest = 0, runs = 0; std::vector<Json> samples; };

void stats_to_json(const Stats &st, Json &j) {
    Json c = Json::obj();
    for (int i = 0; i < CT_COUNT; i++) c.set(ctr_name(i), (unsigned long long)st.c[i]);
    j.set("counters", c);
    Json o = Json::obj();
    for (int i = 1; i < OP_KIND_COUNT; i++) if (st.opk[i]) o.set(op_name(i), (unsigned long long)st.opk[i]);
    j.set("ops", o);
    static const char *SK[] = {"op_boundary", "api_call", "permutation_call", "internal_call", "entropy_device", "os_stub", "leaf_loop_hook"};
    Json s = Json::obj();
    for (int i = 0; i < SK_COUNT; i++) s.set(SK[i], (unsigned long long)st.site_preempt[i]);
    j.set("preemptions_by_site", s);
    j.set("max_budget_permille", (unsigned long long)st.max_budget_permille);
}

int cmd_replay(const Args &a) {
    std::string text;
    if (!read_file(a.file, text)) { fprintf(stderr, "cannot read %s\n", a.file.c_str()); return 2; }
    Json j;
    if (!Json::parse(text, j)) { fprintf(stderr, "bad replay file\n"); return 2; }
    if (j.at("kind").as_s() == "sequence") {
        Args b = a;
        b.engine = j.at("engine").as_s(); b.prop = j.at("property").as_s(); b.tier = j.at("tier").as_s(); b.seed = j.at("batch_seed").as_u();
        b.no_baseline = j.at("no_baseline").as_b();
        int armed = prop_from_name(b.prop);
        uint64_t nbase = b.no_baseline ? 0 : baseline_count(b.engine, armed, b.tier == "thorough");
        SeqResult sr = run_child_seq(b, armed, j.at("first").as_u(), j.at("step").as_u(1), j.at("upto").as_u(), nbase);
        if (!sr.ok) { fprintf(stderr, "replay: harness failure\n"); return 2; }
        if (sr.violated && sr.prop == armed) {
            printf("VIOLATION property=%s replay=%s\n", b.prop.c_str(), a.file.c_str());
            printf("  class=%s run=%lld %s\n", sr.cls.c_str(), (long long)sr.index, sr.detail.c_str());
            return 1;
        }
        printf("replay: no violation of %s (variant %s)\n", b.prop.c_str(), g_variant);
        return 0;
    }
    Plan p;
    if (!plan_from_json(j.at("plan"), p)) { fprintf(stderr, "bad plan in replay file\n"); return 2; }
    int armed = prop_from_name(j.at("property").as_s());
    std::string want_cls = j.at("class").as_s();
    ChildResult r = run_child(p, armed);
    if (!r.ok) { fprintf(stderr, "replay: harness failure\n"); return 2; }
    if (!r.err_text.empty()) fprintf(stderr, "%s\n", r.err_text.substr(0, 4000).c_str());
    if (r.violated && r.prop == armed) {
        printf("VIOLATION property=%s replay=%s\n", prop_name(armed), a.file.c_str());
        printf("  class=%s %s\n", r.cls.c_str(), r.detail.c_str());
        if (!want_cls.empty() && want_cls != r.cls) printf("  note: recorded class was %s\n", want_cls.c_str());
        return 1;
    }
    printf("replay: no violation of %s (variant %s)\n", prop_name(armed), g_variant);
    return 0;
}

int cmd_run(const Args &a) {
    const int armed = prop_from_name(a.prop);
    if (armed == PR_NONE) { fprintf(stderr, "unknown property %s\n", a.prop.c_str()); return 2; }
    const bool thorough = a.tier == "thorough";
    const uint64_t nbase = a.no_baseline ? 0 : baseline_count(a.engine, armed, thorough);
    const uint64_t total = nbase + a.runs;
    int J = std::max(1, std::min(a.jobs, 64));
    if ((uint64_t)J > total) J = (int)std::max<uint64_t>(1, total);
    mkdir(a.tmpdir.c_str(), 0777);
    g_tmpdir = a.tmpdir;
    Shm *shm = (Shm *)mmap(nullptr, sizeof(Shm), PROT_READ | PROT_WRITE, MAP_SHARED | MAP_ANONYMOUS, -1, 0);
    memset((void *)shm, 0, sizeof(Shm));
    shm->stop_after = INT64_MAX;
    for (int k = 0; k < 64; k++) { shm->viol_index[k] = -1; shm->w[k].run = -1; }
    double t0 = now_s();
    std::string tag = a.tmpdir + "/" + a.prop + "-" + g_variant + "-" + std::to_string(getpid());
    std::vector<pid_t> pids((size_t)J);
    fflush(stdout); fflush(stderr);
    for (int k = 0; k < J; k++) {
        pid_t pid = fork();
        if (pid == 0) {
            g_beacon = &shm->w[k];
            WorkerOut wo;
            FILE *hf = nullptr;
            if (!a.dump_hashes.empty()) hf = fopen((tag + ".h" + std::to_string(k)).c_str(), "w");
            Json viol;
            for (uint64_t i = (uint64_t)k; i < total; i += (uint64_t)J) {
                if ((int64_t)i > shm->stop_after || shm->abort_all) break;
                if (a.time_cap > 0 && now_s() - t0 > a.time_cap) break;
                shm->w[k].run = (int64_t)i; shm->w[k].beat++;
                Plan p = plan_for_index(a, armed, i, nbase);
                uint64_t c0 = wo.st.c[CT_CHECKS_ARMED], o0 = wo.st.c[CT_OPS] - wo.st.c[CT_OPS_SKIPPED];
                RunResult rr;
                if (a.isolate) {   // fresh process per run: what this run does cannot depend on the runs before it
                    ChildResult cr = run_child(p, armed, 120);
                    rr.ehash = cr.ok ? cr.ehash ^ (cr.violated ? hash_bytes((const uint8_t *)cr.cls.data(), cr.cls.size()) : 0) : 0xDEAD;
                    wo.st.c[CT_RUNS]++;
                } else rr = execute_plan(p, armed, wo.st);
                wo.runs++;
                wo.digest += mix2(i, rr.ehash);
                if (hf) fprintf(hf, "%llu %016llx\n", (unsigned long long)i, (unsigned long long)rr.ehash);
                if (wo.st.c[CT_CHECKS_ARMED] > c0 && (wo.st.c[CT_OPS] - wo.st.c[CT_OPS_SKIPPED]) - o0 >= 2) wo.st.shapes.insert(plan_shape_hash(p));
                if (wo.samples.size() < 2 && i >= nbase && plan_op_count(p) <= 14) wo.samples.push_back(plan_to_json(p));
                if (rr.viol.set) {
                    std::string sig = viol_sig(p, rr.viol.prop, rr.viol.cls, rr.viol.task, rr.viol.op);
                    bool known = false;
                    for (auto &kf : a.known) if (kf == sig) known = true;
                    if (known) { wo.st.c[CT_UNARMED_FAIL] += 0; continue; }
                    shm->viol_index[k] = (int64_t)i;
                    // lower the global stop line
                    int64_t cur = shm->stop_after;
                    while ((int64_t)i < cur && !__sync_bool_compare_and_swap(&shm->stop_after, cur, (int64_t)i)) cur = shm->stop_after;
                    break;
                }
            }
            if (hf) fclose(hf);
            shm->w[k].run = -2; // finished cleanly
            Json j = Json::obj();
            j.set("runs", (unsigned long long)wo.runs);
            j.set("digest", (unsigned long long)wo.digest);
            stats_to_json(wo.st, j);
            Json st = Json::arr();
            for (uint32_t s : wo.st.states) st.push(s);
            j.set("states", st);
            Json sm = Json::arr();
            for (auto &s : wo.samples) sm.push(s);
            j.set("samples", sm);
            write_file(tag + ".w" + std::to_string(k), j.str());
            { // sets as binary
                std::vector<uint64_t> v(wo.st.shapes.begin(), wo.st.shapes.end());
                FILE *f = fopen((tag + ".s" + std::to_string(k)).c_str(), "wb");
                if (f) { if (!v.empty()) fwrite(v.data(), 8, v.size(), f); fclose(f); }
                std::vector<uint64_t> u(wo.st.schedules.begin(), wo.st.schedules.end());
                f = fopen((tag + ".c" + std::to_string(k)).c_str(), "wb");
                if (f) { if (!u.empty()) fwrite(u.data(), 8, u.size(), f); fclose(f); }
            }
            fflush(nullptr);
            _exit(0);
        }
        pids[(size_t)k] = pid;
    }
    // wait, with a stall watchdog
    std::vector<bool> alive((size_t)J, true);
    std::vector<uint64_t> last_beat((size_t)J, 0);
    std::vector<double> last_change((size_t)J, now_s());
    int64_t crash_index = -1; std::string crash_cls, crash_detail;
    int remaining = J;
    while (remaining > 0) {
        bool any = false;
        for (int k = 0; k < J; k++) {
            if (!alive[(size_t)k]) continue;
            int status = 0;
            pid_t r = waitpid(pids[(size_t)k], &status, WNOHANG);
            if (r == pids[(size_t)k]) {
                alive[(size_t)k] = false; remaining--; any = true;
                bool clean = WIFEXITED(status) && WEXITSTATUS(status) == 0 && shm->w[k].run == -2;
                if (!clean) {
                    int64_t idx = shm->w[k].run;
                    std::string cls = WIFSIGNALED(status) ? "crash:" + sig_name(WTERMSIG(status)) : (WIFEXITED(status) && WEXITSTATUS(status) == 77 ? "sanitizer" : "worker-exit-" + std::to_string(WIFEXITED(status) ? WEXITSTATUS(status) : -1));
                    if (idx >= 0 && (crash_index < 0 || idx < crash_index)) { crash_index = idx; crash_cls = cls; }
                    int64_t cur = shm->stop_after;
                    while (idx >= 0 && idx < cur && !__sync_bool_compare_and_swap(&shm->stop_after, cur, idx)) cur = shm->stop_after;
                }
                continue;
            }
            uint64_t b = shm->w[k].beat;
            if (b != last_beat[(size_t)k]) { last_beat[(size_t)k] = b; last_change[(size_t)k] = now_s(); }
            else if (now_s() - last_change[(size_t)k] > 180) { // stalled: one run takes milliseconds
                int64_t idx = shm->w[k].run;
                kill(pids[(size_t)k], SIGKILL);
                waitpid(pids[(size_t)k], &status, 0);
                alive[(size_t)k] = false; remaining--; any = true;
                if (idx >= 0 && (crash_index < 0 || idx < crash_index)) { crash_index = idx; crash_cls = "hang"; }
                int64_t cur = shm->stop_after;
                while (idx >= 0 && idx < cur && !__sync_bool_compare_and_swap(&shm->stop_after, cur, idx)) cur = shm->stop_after;
            }
        }
        if (!any) usleep(2000);
    }
    double wall = now_s() - t0;
    // merge
    Json res = Json::obj();
    uint64_t runs = 0, digest = 0;
    uint64_t ctr[CT_COUNT]; memset(ctr, 0, sizeof ctr);
    std::map<std::string, uint64_t> opk, sitep;
    uint64_t max_pm = 0;
    std::set<uint32_t> states;
    std::vector<uint64_t> shapes, scheds;
    Json samples = Json::arr();
    for (int k = 0; k < J; k++) {
        std::string text; Json j;
        std::string base = tag + ".w" + std::to_string(k);
        if (read_file(base, text) && Json::parse(text, j)) {
            runs += j.at("runs").as_u(); digest += j.at("digest").as_u();
            for (int i = 0; i < CT_COUNT; i++) ctr[i] += j.at("counters").at(ctr_name(i)).as_u();
            for (auto &kv : j.at("ops").o) opk[kv.first] += kv.second.as_u();
            for (auto &kv : j.at("preemptions_by_site").o) sitep[kv.first] += kv.second.as_u();
            max_pm = std::max<uint64_t>(max_pm, j.at("max_budget_permille").as_u());
            for (auto &v : j.at("states").a) states.insert((uint32_t)v.as_u());
            for (auto &v : j.at("samples").a) if (samples.a.size() < 4) samples.push(v);
        }
        unlink(base.c_str());
        for (const char *ext : {".s", ".c"}) {
            std::string f = tag + ext + std::to_string(k);
            std::string bin;
            if (read_file(f, bin)) {
                std::vector<uint64_t> &dst = ext[1] == 's' ? shapes : scheds;
                size_t n = bin.size() / 8, old = dst.size();
                dst.resize(old + n);
                if (n) memcpy(dst.data() + old, bin.data(), n * 8);
            }
            unlink(f.c_str());
        }
    }
    std::sort(shapes.begin(), shapes.end()); shapes.erase(std::unique(shapes.begin(), shapes.end()), shapes.end());
    std::sort(scheds.begin(), scheds.end()); scheds.erase(std::unique(scheds.begin(), scheds.end()), scheds.end());
    if (!a.dump_hashes.empty()) {
        std::vector<std::pair<uint64_t, std::string>> all;
        for (int k = 0; k < J; k++) {
            std::string f = tag + ".h" + std::to_string(k), text;
            if (read_file(f, text)) {
                size_t pos = 0;
                while (pos < text.size()) {
                    size_t e = text.find('\n', pos); if (e == std::string::npos) e = text.size();
                    std::string line = text.substr(pos, e - pos); pos = e + 1;
                    if (line.empty()) continue;
                    all.emplace_back(strtoull(line.c_str(), nullptr, 10), line);
                }
            }
            unlink(f.c_str());
        }
        std::sort(all.begin(), all.end());
        std::string outt;
        for (auto &l : all) { outt += l.second; outt += '\n'; }
        write_file(a.dump_hashes, outt);
    }

    // lowest violating index
    int64_t vi = -1;
    for (int k = 0; k < J; k++) if (shm->viol_index[k] >= 0 && (vi < 0 || shm->viol_index[k] < vi)) vi = shm->viol_index[k];
    if (crash_index >= 0 && (vi < 0 || crash_index < vi)) vi = crash_index;

    res.set("engine", a.engine); res.set("property", a.prop); res.set("variant", g_variant); res.set("trng_flavor", g_trng_flavor);
    res.set("tier", a.tier); res.set("seed", (unsigned long long)a.seed);
    res.set("runs_requested", (unsigned long long)total); res.set("runs", (unsigned long long)runs);
    res.set("baseline_runs", (unsigned long long)std::min<uint64_t>(nbase, runs));
    res.set("baseline_exhaustive", nbase > 0 && runs >= total);
    res.set("jobs", J); res.set("wall_s", wall);
    res.set("runs_per_hour", wall > 0 ? (double)runs / wall * 3600.0 : 0.0);
    res.set("digest", (unsigned long long)digest);
    Json c = Json::obj();
    for (int i = 0; i < CT_COUNT; i++) c.set(ctr_name(i), (unsigned long long)ctr[i]);
    res.set("counters", c);
    Json o = Json::obj(); for (auto &kv : opk) o.set(kv.first, (unsigned long long)kv.second); res.set("ops", o);
    Json sp = Json::obj(); for (auto &kv : sitep) sp.set(kv.first, (unsigned long long)kv.second); res.set("preemptions_by_site", sp);
    res.set("max_hang_budget_use_permille", (unsigned long long)max_pm);
    res.set("distinct_states", (unsigned long long)states.size());
    res.set("distinct_schedules", (unsigned long long)scheds.size());
    res.set("distinct_nontrivial_plans", (unsigned long long)shapes.size());
    res.set("samples", samples);

    int rc = 0;
    if (vi >= 0) {
        Plan p = plan_for_index(a, armed, (uint64_t)vi, nbase);
        // gate (a): the failing plan reproduces, twice, with the same class (and event hash when the process survives)
        ChildResult r1 = run_child(p, armed), r2 = run_child(p, armed);
        // the verdict (property + class) must reproduce in two further processes; the event hash normally does too, but a
        // library whose output depends on addresses or stack residue makes it differ -- that is the library's
        // nondeterminism, recorded in the replay file, not a reason to withhold the violation
        bool same = r1.ok && r2.ok && r1.violated && r2.violated && r1.prop == armed && r2.prop == armed && r1.cls == r2.cls;
        bool ehash_stable = same && r1.ehash == r2.ehash;
        bool seq_handled = false;
        if (!same) {
            // not reproducible from the plan alone: does it reproduce as the tail of what that worker process ran before it?
            uint64_t first = (uint64_t)vi % (uint64_t)J;
            SeqResult s1 = run_child_seq(a, armed, first, (uint64_t)J, (uint64_t)vi, nbase), s2 = run_child_seq(a, armed, first, (uint64_t)J, (uint64_t)vi, nbase);
            if (s1.ok && s2.ok && s1.violated && s2.violated && s1.prop == armed && s2.prop == armed && s1.cls == s2.cls && s1.index == s2.index) {
                seq_handled = true;
                mkdir(a.replay_dir.c_str(), 0777);
                std::string path = a.replay_dir + "/" + a.prop + "-" + g_variant + "-" + std::to_string((unsigned long long)a.seed) + "-seq" + std::to_string((long long)s1.index) + ".json";
                Json rj = Json::obj();
                rj.set("kind", "sequence"); rj.set("property", a.prop); rj.set("class", s1.cls); rj.set("detail", s1.detail);
                rj.set("signature", std::string(a.prop) + ":" + s1.cls + "@cross-run-state");
                rj.set("variant", g_variant); rj.set("engine", a.engine); rj.set("tier", a.tier);
                rj.set("batch_seed", (unsigned long long)a.seed); rj.set("first", (unsigned long long)first); rj.set("step", J); rj.set("upto", (long long)s1.index);
                rj.set("no_baseline", a.no_baseline); rj.set("tree", a.tree);
                rj.set("explanation", "the final run of this sequence violates the property only when the earlier runs were executed in the same process: the library carries writable state from one call history to the next");
                write_file(path, rj.str(1));
                char exe[4096]; ssize_t n = readlink("/proc/self/exe", exe, sizeof exe - 1);
                int st = -1;
                if (n > 0) {
                    exe[n] = 0; fflush(stdout);
                    pid_t pid = fork();
                    if (pid == 0) { int dn = open("/dev/null", O_WRONLY); if (dn >= 0) { dup2(dn, 1); dup2(dn, 2); } execl(exe, exe, "replay", path.c_str(), (char *)nullptr); _exit(99); }
                    waitpid(pid, &st, 0);
                }
                if (WIFEXITED(st) && WEXITSTATUS(st) == 1) {
                    printf("VIOLATION property=%s replay=%s\n", a.prop.c_str(), path.c_str());
                    printf("  class=%s variant=%s run=%lld (reproduces only after the %llu runs the same process executed before it: state is carried between unrelated calls)\n", s1.cls.c_str(), g_variant, (long long)s1.index, (unsigned long long)(((uint64_t)s1.index - first) / (uint64_t)J));
                    printf("  %s\n", s1.detail.c_str());
                    Json v = Json::obj(); v.set("class", s1.cls); v.set("signature", std::string(a.prop) + ":" + s1.cls + "@cross-run-state"); v.set("detail", s1.detail); v.set("replay", path); v.set("run_index", (long long)s1.index);
                    res.set("violation", v);
                    rc = 1;
                } else seq_handled = false;
            }
        }
        if (seq_handled) {
            // reported above
        } else if (!same) {
            fprintf(stderr, "HARNESS-FAULT: run %lld (seed %llu) failed in the batch (%s) but does not reproduce deterministically (%s/%s)\n", (long long)vi,
                    (unsigned long long)p.seed, crash_cls.c_str(), r1.cls.c_str(), r2.cls.c_str());
            res.set("harness_fault", "violation did not reproduce deterministically");
            rc = 2;
        } else {
            bool known = false;
            for (auto &kf : a.known) if (kf == r1.sig) known = true;
            if (known) {
                printf("KNOWN-FINDING: property=%s %s (%s)\n", a.prop.c_str(), r1.sig.c_str(), r1.detail.c_str());
                res.set("known_finding_hit", r1.sig);
            } else if (r1.cls == "sanitizer-read" || r1.cls == "sanitizer-other") {
                printf("OBSERVATION (not a violation of %s; memory safety is unclaimed property C06): run %lld: %s\n", a.prop.c_str(), (long long)vi, r1.detail.c_str());
                fprintf(stderr, "%s\n", r1.err_text.substr(0, 3000).c_str());
                Json ob = Json::obj(); ob.set("class", r1.cls); ob.set("detail", r1.detail); ob.set("run_index", (long long)vi);
                res.set("unclaimed_observation", ob);
                res.set("search_truncated_at_run", (long long)vi);
            } else {
                // explicit schedule
                if (r1.cls.compare(0, 5, "crash") != 0 && r1.cls.compare(0, 9, "sanitizer") != 0 && r1.cls != "hang") {
                    Plan q = p; q.sched_explicit = true; q.sched = r1.strace;
                    ChildResult r3 = run_child(q, armed);
                    if (r3.ok && r3.violated && r3.prop == armed && r3.cls == r1.cls) p = q;
                }
                size_t ops_before = plan_op_count(p), sched_before = p.sched.size();
                Minimiser m; m.armed = armed; m.cls = r1.cls;
                m.run(p);
                ChildResult rf = run_child(p, armed);
                bool hard = r1.cls.compare(0, 5, "crash") == 0 || r1.cls.compare(0, 9, "sanitizer") == 0 || r1.cls == "hang";
                // a crash / hang / wild write counts for the armed property only when it happens in an operation that
                // belongs to that property's statement; elsewhere it is some other property's business
                std::string where = (rf.ok && rf.violated ? rf.sig : r1.sig);
                where = where.find('@') == std::string::npos ? "" : where.substr(where.find('@') + 1);
                bool foreign = false;
                if (hard && armed == C20) foreign = !(where.find("_FREE") != std::string::npos || where.find("X_CLEAN") != std::string::npos);
                if (hard && armed == C16) foreign = true; // C16 is a budget statement; crashes and hangs are C17's
                if (foreign) {
                    printf("OBSERVATION (not a violation of %s: %s in %s, an operation outside this property's statement): run %lld: %s\n", a.prop.c_str(), r1.cls.c_str(), where.c_str(), (long long)vi, r1.detail.c_str());
                    Json ob = Json::obj(); ob.set("class", r1.cls); ob.set("detail", r1.detail); ob.set("run_index", (long long)vi); ob.set("plan", plan_to_json(p));
                    res.set("unclaimed_observation", ob);
                    res.set("search_truncated_at_run", (long long)vi);
                    res.set("violations", 0);
                    if (!a.out.empty()) write_file(a.out, res.str(1));
                    munmap((void *)shm, sizeof(Shm));
                    return 0;
                }
                if (armed == C19 && hard && r1.cls != "sanitizer-write" && single_caller_single_object(p)) {
                    // the failure needs neither a second caller nor an unrelated earlier call: it is a sequential defect of one
                    // API family (some other property's business), not a reentrancy violation
                    printf("OBSERVATION (not a violation of C19: reproduces with one caller on one object, no interleaving): run %lld: %s %s\n", (long long)vi, r1.cls.c_str(), r1.detail.c_str());
                    Json ob = Json::obj(); ob.set("class", r1.cls); ob.set("detail", r1.detail); ob.set("run_index", (long long)vi); ob.set("plan", plan_to_json(p));
                    res.set("unclaimed_observation", ob);
                    res.set("search_truncated_at_run", (long long)vi);
                    res.set("violations", 0);
                    if (!a.out.empty()) write_file(a.out, res.str(1));
                    munmap((void *)shm, sizeof(Shm));
                    return 0;
                }
                mkdir(a.replay_dir.c_str(), 0777);
                std::string path = a.replay_dir + "/" + a.prop + "-" + g_variant + "-" + std::to_string((unsigned long long)a.seed) + "-" + std::to_string((long long)vi) + ".json";
                Json rj = Json::obj();
                rj.set("property", a.prop); rj.set("class", r1.cls); rj.set("detail", rf.ok && rf.violated ? rf.detail : r1.detail);
                rj.set("signature", rf.ok && rf.violated ? rf.sig : r1.sig);
                rj.set("variant", g_variant); rj.set("engine", a.engine); rj.set("tier", a.tier);
                rj.set("batch_seed", (unsigned long long)a.seed); rj.set("run_index", (long long)vi); rj.set("run_seed", (unsigned long long)p.seed);
                rj.set("tree", a.tree);
                rj.set("ops_before_minimisation", (unsigned long long)ops_before); rj.set("ops_after", (unsigned long long)plan_op_count(p));
                rj.set("schedule_decisions_before", (unsigned long long)sched_before); rj.set("schedule_decisions_after", (unsigned long long)p.sched.size());
                rj.set("minimiser_executions", m.execs);
                rj.set("event_hash_stable_across_processes", ehash_stable);
                rj.set("plan", plan_to_json(p));
                write_file(path, rj.str(1));
                // gate (b): fresh process replay
                std::string self = "/proc/self/exe";
                char exe[4096]; ssize_t n = readlink(self.c_str(), exe, sizeof exe - 1);
                int st = -1;
                if (n > 0) {
                    exe[n] = 0;
                    fflush(stdout);
                    pid_t pid = fork();
                    if (pid == 0) { int dn = open("/dev/null", O_WRONLY); if (dn >= 0) { dup2(dn, 1); dup2(dn, 2); } execl(exe, exe, "replay", path.c_str(), (char *)nullptr); _exit(99); }
                    waitpid(pid, &st, 0);
                }
                if (!(WIFEXITED(st) && WEXITSTATUS(st) == 1)) {
                    fprintf(stderr, "HARNESS-FAULT: minimised replay %s does not reproduce in a fresh process (status %d)\n", path.c_str(), st);
                    res.set("harness_fault", "replay did not reproduce in a fresh process");
                    rc = 2;
                } else {
                    printf("VIOLATION property=%s replay=%s\n", a.prop.c_str(), path.c_str());
                    printf("  class=%s variant=%s run=%lld seed=%llu ops %zu->%zu, schedule %zu->%zu decisions, %d minimiser executions\n", r1.cls.c_str(), g_variant, (long long)vi,
                           (unsigned long long)p.seed, ops_before, plan_op_count(p), sched_before, p.sched.size(), m.execs);
                    printf("  %s\n", (rf.ok && rf.violated ? rf.detail : r1.detail).c_str());
                    Json v = Json::obj();
                    v.set("class", r1.cls); v.set("signature", rf.ok && rf.violated ? rf.sig : r1.sig); v.set("detail", rf.ok && rf.violated ? rf.detail : r1.detail); v.set("replay", path);
                    v.set("run_index", (long long)vi);
                    res.set("violation", v);
                    rc = 1;
                }
            }
        }
    }
    res.set("violations", rc == 1 ? 1 : 0);
    if (!a.out.empty()) write_file(a.out, res.str(1));
    munmap((void *)shm, sizeof(Shm));
    if (rc == 0) printf("ok property=%s engine=%s variant=%s tier=%s runs=%llu wall=%.1fs digest=%016llx\n", a.prop.c_str(), a.engine.c_str(), g_variant, a.tier.c_str(), (unsigned long long)runs, wall, (unsigned long long)digest);
    return rc;
}

int cmd_show(const Args &a) { // print the plan of one run index (debugging aid)
    int armed = prop_from_name(a.prop);
    uint64_t nbase = a.no_baseline ? 0 : baseline_count(a.engine, armed, a.tier == "thorough");
    Plan p = plan_for_index(a, armed, a.runs, nbase);
    printf("%s\n", plan_to_json(p).str(1).c_str());
    return 0;
}

} // namespace

#ifdef SIM_ASAN
extern "C" void __asan_set_error_report_callback(void (*cb)(const char *));
static void asan_report_cb(const char *text) {
    // runs inside the failing access; only record, the executor decides after the op returns
    g_asan_reports++;
    bool wr = strstr(text, "WRITE of size") != nullptr;
    if (wr) g_asan_writes++;
    if ((wr && g_asan_writes == 1) || g_asan_reports == 1) {
        const char *e = strstr(text, "ERROR: AddressSanitizer");
        if (!e) e = text;
        size_t n = 0; while (e[n] && e[n] != '\n' && n < sizeof(g_asan_first) - 1) n++;
        const char *cut = strstr(e, " on address");   // addresses differ from process to process: never logged
        if (cut && (size_t)(cut - e) < n) n = (size_t)(cut - e);
        memcpy(g_asan_first, e, n); g_asan_first[n] = 0;
    }
}
#endif

int main(int argc, char **argv) {
    Args a;
#ifdef SIM_ASAN
    __asan_set_error_report_callback(asan_report_cb);
#endif
    if (argc < 2) { fprintf(stderr, "usage: sim run|replay|show ...\n"); return 2; }
    a.mode = argv[1];
    {   // constants of the library built from the tree (see build.sh)
        char exe[4096]; ssize_t n = readlink("/proc/self/exe", exe, sizeof exe - 1);
        if (n > 0) {
            exe[n] = 0;
            std::string d(exe); size_t sl = d.rfind('/');
            std::string text;
            if (sl != std::string::npos && read_file(d.substr(0, sl) + "/dict.txt", text)) {
                size_t pos = 0;
                while (pos < text.size()) {
                    size_t e = text.find('\n', pos); if (e == std::string::npos) e = text.size();
                    unsigned long long v = strtoull(text.substr(pos, e - pos).c_str(), nullptr, 16);
                    if (e > pos) { g_dict.push_back((uint32_t)v); if (v >> 32) g_dict.push_back((uint32_t)(v >> 32)); }
                    pos = e + 1;
                }
            }
        }
    }
    g_variant = sim_variant_name;
    g_trng_flavor = sim_trng_flavor_name;
    for (int i = 2; i < argc; i++) {
        std::string k = argv[i];
        auto val = [&]() -> std::string { return i + 1 < argc ? argv[++i] : ""; };
        if (k == "--engine") a.engine = val();
        else if (k == "--prop") a.prop = val();
        else if (k == "--tier") a.tier = val();
        else if (k == "--seed") a.seed = strtoull(val().c_str(), nullptr, 10);
        else if (k == "--runs") a.runs = strtoull(val().c_str(), nullptr, 10);
        else if (k == "--jobs") a.jobs = atoi(val().c_str());
        else if (k == "--out") a.out = val();
        else if (k == "--replay-dir") a.replay_dir = val();
        else if (k == "--dump-hashes") a.dump_hashes = val();
        else if (k == "--time-cap") a.time_cap = atof(val().c_str());
        else if (k == "--tmpdir") a.tmpdir = val();
        else if (k == "--known") a.known.push_back(val());
        else if (k == "--tree") a.tree = val();
        else if (k == "--no-baseline") a.no_baseline = true;
        else if (k == "--isolate") a.isolate = true;
        else if (k == "--variant") g_variant = strdup(val().c_str());
        else if (k == "--trng-flavor") g_trng_flavor = strdup(val().c_str());
        else if (a.mode == "replay" && a.file.empty()) a.file = k;
        else { fprintf(stderr, "unknown argument %s\n", k.c_str()); return 2; }
    }
    for (auto &kf : a.known) g_known_hard.push_back(kf);
    if (a.mode == "run") return cmd_run(a);
    if (a.mode == "replay") return cmd_replay(a);
    if (a.mode == "show") return cmd_show(a);
    fprintf(stderr, "unknown mode %s\n", a.mode.c_str());
    return 2;
}
